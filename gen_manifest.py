#!/usr/bin/env python3
# Generates MANIFEST.json. Edit CHECKS / PENDING here, not the JSON.
import json, subprocess

HOOK_COMMITS = ["0b327b6"]

# id -> (level, technique, text, note, design_ref)
CHECKS = {
 "C09": ("exploration",
   "exhaustive enumeration of all rule sets of bounded grammar classes through the real front end and LR(0) construction, compared state-by-state (by item set) with a reference canonical collection",
   "Every grammar of the bounded classes (quick: G(2,2,2,<=3) u G(1,2,3,<=3); thorough: six classes up to 4 rules / 3 nonterminals / 3 terminals / rhs length 3) plus hand-written families is built by the real code; the automaton must be isomorphic to the reference LR(0) collection (no duplicate, missing, extra or unreachable state, transitions exactly on symbols after a dot, state 0 the start closure). Exhaustive inside the class, small-scope hypothesis beyond it.",
   "Trusted: reference LR(0) construction in harness/ref, the overlay rewriter (map ranges in canonical order; repo tests pass under it), Go toolchain.",
   "3/C09"),
 "C03": ("exploration",
   "exhaustive enumeration of bounded grammar classes through the real DeRemer-Pennello computation, every (state, reduction) lookahead set compared with canonical-LR(1)-merged-by-core sets; conflict warnings compared with reference conflict cells; lalr.Digraph on every relation over <=4 nodes against transitive closure",
   "For every usable grammar of the classes, the separator families and all 124 renamings of the nonterminals / named tokens of a fifteen-symbol calculator grammar (yaccgo numbers symbols by name), every reduce lookahead set yaccgo attaches must equal the LALR(1) set by definition (LR(1) merge), and the warning lines must name exactly the cells with an unresolved conflict. The Digraph component is explored over all 2^(n*n) relations for n<=3 (quick) / n<=4 (thorough) with three base-set shapes (append-built, shared backing array).",
   "Trusted: reference LR(1) construction; state matching by item set (C09). Needs hook VerifReduceLookaheads (build tag verif). The warning clause is not judged on grammars with a conflict cell of more than two candidates or a reduce/reduce pair where both rules carry precedence.",
   "3/C03"),
 "C12": ("exploration",
   "exhaustive enumeration of the unfiltered bounded grammar classes (undefined / unproductive / unreachable / ruleless-start cases included) through the real ParseAndBuild, verdict compared with reference definedness and productivity fixpoints",
   "Refused <=> the reference finds a symbol that is neither token nor defined, or an unproductive nonterminal (the verdict must not depend on whether terminals are declared names or undeclared literals, nor on ';' terminators); refusal must be a diagnostic (not a runtime error) and, for unproductivity, name exactly the unproductive nonterminals; every usable grammar must be processed within the fuel budget.",
   "Trusted: reference fixpoints. Usable grammars with 343, 1 557 and exactly 1 999 states (the built-in limit is 2 000) must be processed; what happens at 2 000 and beyond is not judged.",
   "3/C12"),
 "C01": ("model_checking",
   "explicit-state exploration (prefix-shared DFS over all token strings up to depth k) of the LR machine defined by yaccgo's own dense and packed tables for every grammar of bounded classes (each also with its rule groups split up) and a family list that includes a 343-state automaton; every reduction checked on a plain symbol stack (derivation checker) and every accept against an Earley recognizer; model runs replayed on compiled generated parsers",
   "Every configuration reachable on every token string up to the bound, for every usable grammar of the classes (conflicting ones included: their conflicts were resolved by default rules): reductions read backwards must be a rightmost derivation of exactly the input. The abstract driver has the generated driver's control flow and is bound to the generated Go/TypeScript code by replaying all its runs on the conformance corpus.",
   "Trusted: derivation checker, Earley recognizer, the abstract driver (bound by conformance replays). Bounds: depth 5/6 tokens, grammars up to 4 rules.",
   "3/C01"),
 "C02": ("model_checking",
   "same explicit-state exploration restricted to grammars the reference classifies conflict-free LALR(1); oracle: every Earley-viable next token must be shifted/accepted",
   "For every LALR(1) grammar of the classes (classification by the reference, never yaccgo's own opinion) and every viable prefix up to the bound, on dense and packed tables and on generated parsers; when the rule list yaccgo works on differs from the file, its tables are still judged at token level against the language of the grammar as written.",
   "Trusted: reference LALR(1) classification (LR(1) merge), Earley recognizer. Bounds as C01.",
   "3/C02"),
 "C05": ("exploration",
   "exhaustive enumeration: every small integer matrix through utils.PackTable/UnPackTable (also spread over rows of 72 columns, and in histories of two calls: the earlier result must still unpack to its matrix after the later call); every (state, symbol) cell of every grammar of the bounded classes through a transliteration of the generated packed Action() vs the dense table, under canonical and reversed map order, and once more after the NEXT grammar has been built in the same process; packed vs -u generated parsers on the conformance corpus",
   "Lookup through the packed arrays with default-action and default-goto vectors must return exactly the dense cell, for all cells of all grammars of the classes and all matrices of the stated shapes.",
   "Trusted: the transliteration of Action() (bound to generated code by the Action() dump in the conformance phase).",
   "3/C05"),
 "C04": ("exploration",
   "exhaustive enumeration: every conflicting rule set of small classes x every precedence decoration (levels, associativities, %prec, both rule orders) compared cell by cell with the resolution prescribed by the property; every operator table (<=3 binary operators, <=3 levels, unary minus via %prec, parentheses) x every sentence up to the bound compared with a precedence-climbing reference, on yaccgo's table and on generated parsers",
   "Cell level: all two-way conflict cells (and the cells with more candidates whose outcome does not depend on the order in which the pairs are compared) of all decorated grammars (rule sets of the small classes, mixfix rules with two precedence-bearing terminals, precedence families) must hold the prescribed winner (higher precedence; equal: left reduces, right shifts, nonassoc errors; otherwise shift / earlier rule). Expression level: every expression groups as the declarations say; in addition every sentence of every fully-resolved precedence grammar is parsed by yaccgo's dense AND packed table and compared (verdict, reductions) with a parser built to the reference table. Cells the statement leaves open are only required to hold a candidate or error.",
   "Trusted: reference conflict candidates (LR(1) merge), the transcription of the resolution rule, the precedence-climbing parser. Not judged: cells with more than two candidates whose outcome depends on the order of comparison, reduce/reduce where both rules carry precedence, rules whose precedence would come from a non-last terminal.",
   "3/C04"),
 "C06": ("model_checking",
   "same explicit-state exploration with an extra unknown-token input symbol; oracle: non-accepting runs end in the documented error outcome (never index error / garbage action); on conflict-free grammars the first non-viable token (Earley) is rejected unshifted after finitely many reductions; outcome class and fetch count replayed on generated parsers",
   "All grammars x all strings up to the bound including an unknown token code (the lexer answers 0): rejected means the documented channel; for LALR(1) grammars rejection happens exactly at the first token that cannot continue any sentence; for grammars whose conflicts are all decided by the declarations (precedence, %nonassoc) the verdict is compared with the reference table run in lockstep.",
   "Trusted: Earley viable-prefix oracle; abstract driver bound by conformance replays. Reduction loops of conflicting (e.g. cyclic) grammars are counted, not judged.",
   "3/C06"),
 "C07": ("model_checking",
   "bounded exhaustive replay on compiled generated parsers: corpus grammars x union-field assignments x action shapes (also: a nested parse started from inside every action; references written with a leading zero, $010, in a rule of twelve symbols; the int member of the %union under 34 everyday names; a TypeScript token value that is no finite number) x all strings up to the bound; returned value compared with reference attribute evaluation over the parser's own derivation-checked reductions",
   "Harness-chosen actions make every stack slot and union field observable (token values encode character and position, rule values rule number and argument order). For every (grammar, tag assignment, action shape) and every accepted string the value returned by Parser() must equal bottom-up evaluation; Go (global packed, -o -u) and TypeScript.",
   "Trusted: combinators shared between generated code and reference (gen/rt), the derivation checker, the TypeScript type eraser. Tag assignments: all-string, all-int, each single symbol switched to int or untagged; not all 3^n assignments.",
   "3/C07"),
 "C08": ("model_checking",
   "differential bounded exhaustive replay: every corpus grammar generated in all five variants (go, -u, -o, -o -u, typescript), compiled/loaded, all strings up to the bound run on each (also with rules that have no action block at all, with a nested parse inside every action, with a lexer that keeps its value cell between calls and accumulates into it, yylval style, and with one action text `$$ = $1` shared by rules of different value tags); verdict class, reduction sequence and value compared pairwise and with the model run",
   "All variants of one grammar must agree on every input up to the bound; each run is additionally compared with the abstract LR driver over yaccgo's tables (traces_validated).",
   "Trusted: Go toolchain, Node 20, the type eraser (logs every deleted span). The embedded template strings equal the .templ files on this tree; a Makefile regeneration is not exercised.",
   "3/C08"),
 "C17": ("model_checking",
   "bounded exhaustive replay with IsTrace=true on the four Go variants: stdout lines compared, in order, with the lines predicted from the model run and the specification's rule text; number of traced reductions compared with reductions executed by the actions; where the declarations decide every table cell, the reductions executed on every input (rejected ones included) are compared with the run of the reference automaton (\"a legal run\")",
   "Every line of every traced run (all strings up to the bound, rejected ones up to the error, runs that die up to the reductions traced before) must be the action actually performed: shifts and gotos with the pushed state, reductions with exact rule text, lookahead and goto state.",
   "Trusted: abstract LR driver (bound to generated code by C01/C08 replays), whitespace-normalised comparison.",
   "3/C17"),
 "C14": ("exploration",
   "schedule exploration where the schedule is map iteration order: a build-time source overlay hands every range-over-map in yaccgo to the harness; deviation-bounded exhaustive enumeration (canonical order, then every alternative permutation at each single visit, uniform reversed/rotated policies, two deviating visits on the smallest grammars), output bytes compared; call histories in one process, all calls of a history writing to one output path; repeated runs of the native CLI as a free-running pass",
   "For each corpus grammar and each option set the generated file must be byte-identical under every explored iteration order of every map range, after any history of earlier generation calls, and across repeated native runs. Deviation bound 1 is complete for visits of up to 6 keys (all permutations); larger visits use reversal, rotations and adjacent transpositions (reported as a cap).",
   "Trusted: the overlay rewriter (repo tests pass under it; every produced order is one Go allows). Assumes map iteration is yaccgo's only nondeterminism.",
   "3/C14"),
 "C13": ("exploration",
   "exhaustive enumeration of a text space (all fragment sequences up to a length bound over a 38-piece lexical alphabet, every byte prefix and every single-token edit of corpus grammar files) through the real front end on an overlay build where every loop iteration burns fuel; hangs = fuel exhaustion / spinning background goroutine / runtime deadlock, each confirmed on the native CLI; the drawing option -g (which hands the graph text to another process, waiting burns no fuel) is run through the native CLI on every corpus file and on automata of 343 and 1 557 states under a 90 s deadline (1.5 s is the slowest observed)",
   "generate go, generate typescript and debug must return or stop with a diagnostic on every text of the explored space (non-ASCII fragments and three grammars with exponential LR(0) automata included); termination is decided deterministically by fuel (25 000 loop iterations per input byte, about 50x the largest terminating run), not by wall clock.",
   "Trusted: the overlay rewriter instruments every for/range loop and function entry of the repository packages; the fuel margin. Not all byte strings: the fragment alphabet, prefixes and single edits.",
   "3/C13"),
 "C16": ("exploration",
   "bounded exhaustive enumeration of output shapes: every printable punctuation character as literal token (declared, undeclared, with precedence), awkward-but-legal names, names with one character of each Unicode class near identifiers, long names of 2-, 3- and 4-byte letters at every byte alignment, %union members of types that cannot be compared (slice, map, func, ...), white-space and non-ASCII literals, tag mixes, explicit numbers (also colliding ones: whatever yaccgo writes must compile), tokens introduced only by %left, comments and strings inside actions, several prologue blocks, plus a fixed-stride selection of the bounded grammar classes, each generated in all five variants with the minimal prologue/epilogue the statement allows; Go files compiled with the Go toolchain, TypeScript type-erased and loaded under Node",
   "Whenever yaccgo generates a file without reporting an error the file must compile (Go: go build of all packages) or load (TypeScript under Node after type erasure).",
   "Trusted: Go toolchain, Node 20, the type eraser. TypeScript type correctness is not checked (no tsc in the image). Domain: token names that are not reserved/predeclared words nor skeleton names.",
   "3/C16"),
 "C10": ("exploration",
   "deviation-bounded exhaustive enumeration of textual renderings: each abstract specification is a sequence of atoms; every gap takes every separator (blank, newline, CR LF, tab, block comments incl. `/** c **/` and `/*/ c */`, line comment, mixed, empty where allowed) one gap at a time, all gaps uniformly, and pairs of gaps (thorough), with and without ';', with '|' or repeated left sides, with one %token line per token or grouped lines (numbers, string aliases); what the real front end hands to table construction is compared field by field with the abstract specification",
   "For every rendering explored, rules in order (with %prec and action bodies), start symbol, token numbers, tags, precedence levels and associativity, prologue, %union body and epilogue must equal the abstract specification, and the generated Go/TypeScript file must carry prologue, union, actions and epilogue.",
   "Braces in actions balanced outside strings, runes and comments. A specification with mid-rule actions may be refused with a diagnostic but no action body may be dropped silently (one open known finding: yaccgo drops them). Prologue/union compared modulo surrounding whitespace.",
   "3/C10"),
 "C11": ("exploration",
   "exhaustive enumeration of token declaration mixes (ordered, up to 3/4 tokens from a 20-option menu: automatic, tagged, explicit numbers, declared only by %left, declared twice, character literals declared / only by precedence / only used) through the real front end; codes checked in-process under canonical and reversed map order; constants and translate(c) for every c in [-9,max+2] checked on compiled Go (default and -o) and loaded TypeScript programs for a fixed stride of the mixes, which are also run end to end: the lexer answers code sequences (the rule's own, prefixes, transpositions, one undeclared code 0 / max+1 / -7 / max+2 at each position) and the parser must accept exactly the rule's own",
   "Literal = character code, explicit number kept, all codes distinct and never -1/0; `const NAME = n` equals the code for every named token (no other constants); translate maps each code to its own symbol id, -1 to the end marker and every other integer to the error column.",
   "Assumes the statement's proviso (explicit numbers distinct from each other and from literal codes used).",
   "3/C11"),
 "C18": ("exploration",
   "exhaustive enumeration of bounded grammar classes plus families: the gographviz graph object returned by DrawGrammar and the text of the debug listing are parsed and compared with the tables and the LR(0) automaton of the same run (nodes/items/edges/reduce annotations/accept mark; record-label structure; DOT text re-parsed; listing items, GOTO lines, lookahead lines; listing vs table cell by cell with reference conflict cells as the only allowed differences)",
   "For every usable grammar explored: graph and listing show exactly the states, items, transitions, reduce lookaheads and accepting state of the automaton the tables implement, numbered as in the tables.",
   "Trusted: gographviz parser for DOT syntax, the reference conflict classification for listing-vs-table differences. The PNG rendering through the external dot program is not checked (dot is not installed).",
   "3/C18"),
 "C19": ("fault_enumeration",
   "exhaustive fault enumeration over corpus grammar files: every byte prefix, every single-token deletion/duplication/replacement by each fragment of a 38-piece lexical alphabet, and semantic faults derived from the specification (undefined symbol at every right-hand-side position, each nonterminal made unproductive, %prec/%left of undeclared tokens, $n out of range in each action, %type of a ruleless name, missing %start) x {go, -u, -o, typescript}, with the output path pre-filled with sentinel bytes (and, for successful generations, with a file of exactly the new size but other content, a 10-byte file and the output itself); in-process for the whole space and through the real CLI (exit status, bytes, inode) for a fixed stride",
   "Every input-caused failure explored leaves the existing output file byte-identical (same inode; every second command-line run over a write-protected file); every success leaves a complete file ending with the program section and containing a case for every rule, the same bytes whatever the path held before.",
   "Failure = error return or panic of the generator. Non-terminating inputs are excluded here (C13). Faults attributable to the environment (unwritable path, full disk) are outside the statement.",
   "3/C19"),
 "C15": ("model_checking",
   "(a) exhaustive enumeration of parse histories (all sequences of <=3 parses over <=8 inputs per parser, with re-initialisation / fresh contexts, Go and TypeScript) compared with the solo (model) result; (b) stateless model checking of the real generated -o parsers under a hand-written cooperative scheduler: 2-3 contexts in separate goroutines, scheduling points at every lexer fetch and semantic action, all schedules with <=2 preemptions (all interleavings for short pairs), also with IsTrace = true, deviating schedules replayed, a parse that blocks outside the scheduler while the other is suspended reported as a deadlock with its schedule; (c) separate free-running -race pass of the same bodies on 8 goroutines, started behind a barrier in a process that has not parsed anything yet (lazily built shared state is still cold), the lexer hook yielding the processor",
   "Every parse in every history and every schedule must give exactly the observation of that parse alone (verdict, reductions with fetch counts, value), also with actions that do not always assign $$, with a nested parse started from inside every action (PushContex/ParserInit/Parser/PopContex, a fresh context with -o), and on one global parser / one -o context re-initialised 12 000 times; a value returned by a parse must still read the same after the later parses of the history (the caller keeps the pointer); no data race between contexts.",
   "Scheduling points = the places where user code runs inside Parser(); unsynchronised accesses elsewhere are the race pass's job (cooperative hand-offs are happens-before edges). Bounds: 3 parses per history, 8 inputs of <=4 tokens, 2 preemptions, 3 contexts.",
   "3/C15"),
}

PENDING = {}

def main():
    props = [json.loads(l) for l in open('/verif/properties.jsonl')]
    checks = []
    na = []
    for p in props:
        i = p['id']
        if i in CHECKS:
            level, tech, text, note, ref = CHECKS[i]
            checks.append({
                "property_id": i,
                "quick_cmd": f"./run.sh {i} quick",
                "thorough_cmd": f"./run.sh {i} thorough",
                "evidence_file": f"/verif/evidence/{i}.json",
                "replay_cmd_template": "./run.sh replay {path}",
                "engine": "vcheck",
                "level_claimed": {"category": level, "text": text, "design_ref": "DESIGN.md section " + ref},
                "level_note": note,
                "technique": tech,
            })
        else:
            na.append({"property_id": i, "reason": PENDING.get(i, "check not built yet in this session; planned as described in DESIGN.md section 3 (bounded exhaustive exploration applies; this entry is removed as soon as the check exists)")})
    m = {
        "version": 1,
        "setup_cmd": "./setup.sh",
        "hooks": {
            "guard": "verif",
            "enable": "go build -tags verif -overlay <scratch>/ov/overlay.json (overlay generated at check time by harness/cmd/vrewrite from the current working tree: map-range order and loop fuel; /repo/LALR/verif_hooks.go is the only committed hook)",
            "baseline_off_cmd": "cd /repo && GOFLAGS=-mod=mod GOPROXY=off GOSUMDB=off GOTOOLCHAIN=local go test -vet=off -count=1 ./...",
            "source_commits": HOOK_COMMITS,
            "add_only": True,
        },
        "engines": [
            {"name": "vcheck", "path": "/verif/harness/cmd/vcheck", "serves_properties": sorted(CHECKS), "kind_free_text": "hand-written explicit-state / bounded exhaustive explorer in Go driving the real yaccgo packages in-process (coordinator + 16 worker processes), reference models in harness/ref"},
            {"name": "vrewrite", "path": "/verif/harness/cmd/vrewrite", "serves_properties": sorted(CHECKS), "kind_free_text": "go/ast source-overlay generator: puts map iteration order and loop fuel under harness control without touching /repo"},
        ],
        "checks": checks,
        "not_applicable": na,
        "notes": "All commands run from /verif. Exit 0 = property held on everything explored; 1 = VIOLATION line printed; 2 = /repo does not build; 3 = harness error (no verdict).",
    }
    json.dump(m, open('/verif/MANIFEST.json', 'w'), indent=1)
    print("MANIFEST.json written:", len(checks), "checks,", len(na), "not applicable")

main()
