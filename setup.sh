#!/bin/bash
# Run once after a fresh restore, offline. Warms the Go build cache for the
# harness, the overlay build of yaccgo and the -race runtime, and runs the
# repository's own tests under the overlay as a sanity check of the rewriter.
set -eu
cd "$(dirname "$0")"
. ./env.sh
SCR=$(mktemp -d "${TMPDIR:-/tmp}/verif-setup.XXXXXX")
trap 'rm -rf "$SCR"' EXIT
( cd harness && go build -o "$SCR/vrewrite" ./cmd/vrewrite )
"$SCR/vrewrite" -repo /repo -out "$SCR/ov" -sched "$PWD/harness/ord/verifsched"
( cd harness && go build -tags verif -overlay "$SCR/ov/overlay.json" -o "$SCR/vcheck" ./cmd/vcheck )
( cd /repo && go build -o "$SCR/yaccgo" ./yaccgo )
# rewriter sanity: the repository's tests must pass under the overlay exactly as without it
( cd "$SCR" && mkdir -p t && cd /repo && go test -tags verif -overlay "$SCR/ov/overlay.json" -vet=off -count=1 ./... >"$SCR/overlay-tests.log" 2>&1 ) || { cat "$SCR/overlay-tests.log"; echo "setup: repository tests fail under the overlay"; exit 1; }
echo "setup ok"
