#!/bin/bash
# Run once after a fresh restore, offline. Warms the Go build cache for the
# harness, the overlay build of yaccgo and the -race runtime, and runs the
# repository's own tests under the overlay as a sanity check of the rewriter.
set -eu
cd "$(dirname "$0")"
. ./env.sh
SCR=$(mktemp -d "${TMPDIR:-/tmp}/verif-setup.XXXXXX")
trap 'rm -rf "$SCR"' EXIT
( cd harness && go build -o "$SCR/vrewrite" ./cmd/vrewrite )
"$SCR/vrewrite" -repo /repo -out "$SCR/ov" -sched "$PWD/harness/ord/verifsched"
( cd harness && go build -tags verif -overlay "$SCR/ov/overlay.json" -o "$SCR/vcheck" ./cmd/vcheck )
( cd /repo && go build -o "$SCR/yaccgo" ./yaccgo )
# rewriter sanity: the repository's tests must pass under the overlay exactly as without it
( cd "$SCR" && mkdir -p t && cd /repo && go test -tags verif -overlay "$SCR/ov/overlay.json" -vet=off -count=1 ./... >"$SCR/overlay-tests.log" 2>&1 ) || { cat "$SCR/overlay-tests.log"; echo "setup: repository tests fail under the overlay"; exit 1; }
# seed cache for the builds of generated parsers: the standard library packages a driver needs,
# compiled normally and with the race detector, in a cache of their own (see harness/gen/batch.go)
SEED=/verif/.cache/gendrv-seed
rm -rf "$SEED"; mkdir -p "$SEED" "$SCR/seedmod/rt"
cp harness/gen/rt/rt.go "$SCR/seedmod/rt/rt.go"
printf 'module gendrv\n\ngo 1.18\n' > "$SCR/seedmod/go.mod"
cat > "$SCR/seedmod/main.go" <<'EOS'
package main

import (
	"bufio"
	"encoding/json"
	"fmt"
	"io"
	"os"
	"sync"
	"sync/atomic"
	"time"

	"gendrv/rt"
)

func main() {
	var wg sync.WaitGroup
	var n int64
	atomic.AddInt64(&n, 1)
	w := bufio.NewWriter(os.Stdout)
	json.NewEncoder(w).Encode(rt.Result{})
	fmt.Fprintln(io.Discard, time.Now(), rt.HS(1))
	wg.Wait()
	w.Flush()
}
EOS
( cd "$SCR/seedmod" && GOCACHE="$SEED" go build -gcflags=-e -o "$SCR/seeddrv" . && GOCACHE="$SEED" CGO_ENABLED=1 go build -race -o "$SCR/seeddrv-race" . )
du -sh "$SEED" | sed 's/^/seed cache: /'
echo "setup ok"
