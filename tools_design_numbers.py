#!/usr/bin/env python3
# Rewrites the "quick (wall)" column of the table in DESIGN.md section 3 from evidence/<id>.json
# (only when the evidence is from the quick tier); with a thorough log (output of
# `./runall.sh thorough`) as argument also the "thorough" column.
import json, re, sys
def fmt(n):
    if n >= 1_000_000: return f"{n/1e6:.2f} M"
    if n >= 10_000: return f"{n//1000} k"
    return str(n)
thor = {}
if len(sys.argv) > 1:
    for l in open(sys.argv[1]):
        m = re.match(r"(C\d\d) exit=0 .*thorough: evaluations=(\d+).*wall=([\d.]+)s", l)
        if m: thor[m.group(1)] = f"{fmt(int(m.group(2)))} cases, {float(m.group(3)):.0f} s"
lines = open('/verif/DESIGN.md').read().split('\n')
for i, l in enumerate(lines):
    m = re.match(r"\| (C\d\d) \| ", l)
    t = re.search(r" \| ([^|]*cases, [^|]*s) \| ([^|]*) \|$", l)
    if not m or not t: continue
    cid = m.group(1)
    quick, thorough = t.group(1), t.group(2)
    try: e = json.load(open(f'/verif/evidence/{cid}.json'))
    except Exception: continue
    if e.get('tier') == 'quick':
        quick = f"{fmt(e['coverage']['counters']['evaluations'])} cases, {e['wall_s']:.0f} s"
    if cid in thor:
        thorough = thor[cid]
    lines[i] = l[:t.start()] + f" | {quick} | {thorough} |"
open('/verif/DESIGN.md', 'w').write('\n'.join(lines))
