#!/bin/bash
# usage: thorough_subset.sh <id>...  - the thorough tier of the given checks, one line each (as runall.sh)
cd "$(dirname "$0")"
for id in "$@"; do
  out=$(./run.sh $id thorough 2>&1); code=$?
  echo "$id exit=$code $(echo "$out" | grep "$id thorough:" | cut -c1-200)"
  if [ $code -ne 0 ]; then echo "$out" | grep -E "VIOLATION|INTERNAL|KNOWN" | head -5; fi
done
