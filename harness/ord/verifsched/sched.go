// Package verifsched is injected into the yaccgo module by the verification
// overlay (it is never part of /repo). Rewritten yaccgo code asks it for the
// iteration order of every map range and reports every loop iteration to it,
// so the harness owns the two sources of nondeterminism / non-termination.
package verifsched

import (
	"fmt"
	"math/rand"
	"os"
	"reflect"
	"runtime"
	"sort"
	"strconv"
	"strings"
	"sync"
	"sync/atomic"
)

// Order kinds for one map-range visit.
const (
	Canon   = iota // sorted canonical order
	Perm           // Arg = index of the permutation in lexicographic order (n <= MaxPermN)
	Reverse        // reversed canonical order
	Rotate         // rotated left by Arg
	Swap           // adjacent transposition at Arg
	Native         // Go's own (random) order
	Shuffle        // pseudo-random order from Arg as seed (diagnostics only)
)

const MaxPermN = 6

type Choice struct {
	Kind int `json:"kind"`
	Arg  int `json:"arg,omitempty"`
}

type Visit struct {
	Site string `json:"site"`
	N    int    `json:"n"`
}

type FuelExhausted struct{ Used int64 }

func (f FuelExhausted) Error() string {
	return fmt.Sprintf("verifsched: fuel exhausted after %d ticks", f.Used)
}

var (
	mu       sync.Mutex
	def      = Choice{Kind: Canon}
	deviate  map[int]Choice
	siteRule map[string]Choice
	visits   []Visit
	logOn    bool
	fuel     int64
	used     int64
	callerG  int64
)

// Begin starts a controlled run: default order for all visits, explicit
// deviations by visit index, fuel (0 = unlimited). The calling goroutine is
// the one in which fuel exhaustion is a recoverable panic.
func Begin(defaultOrder Choice, dev map[int]Choice, fuelLimit int64, record bool) {
	mu.Lock()
	def = defaultOrder
	deviate = dev
	visits = visits[:0]
	logOn = record
	mu.Unlock()
	atomic.StoreInt64(&used, 0)
	atomic.StoreInt64(&fuel, fuelLimit)
	atomic.StoreInt64(&callerG, goid())
}

// SiteRules overrides the order for named sites (used to show which site
// matters); nil clears.
func SiteRules(r map[string]Choice) { mu.Lock(); siteRule = r; mu.Unlock() }

// End stops fuel accounting and returns the visits recorded.
func End() ([]Visit, int64) {
	atomic.StoreInt64(&fuel, 0)
	mu.Lock()
	v := append([]Visit(nil), visits...)
	mu.Unlock()
	return v, atomic.LoadInt64(&used)
}

func Used() int64 { return atomic.LoadInt64(&used) }

func goid() int64 {
	var buf [64]byte
	n := runtime.Stack(buf[:], false)
	f := strings.Fields(string(buf[:n]))
	if len(f) < 2 {
		return -1
	}
	id, _ := strconv.ParseInt(f[1], 10, 64)
	return id
}

func Tick() {
	u := atomic.AddInt64(&used, 1)
	f := atomic.LoadInt64(&fuel)
	if f > 0 && u > f {
		if goid() == atomic.LoadInt64(&callerG) {
			atomic.StoreInt64(&fuel, 0)
			panic(FuelExhausted{Used: u})
		}
		// a goroutine the harness cannot unwind is spinning
		fmt.Fprintf(os.Stderr, "\nVERIF-FUEL-EXHAUSTED-IN-BACKGROUND-GOROUTINE used=%d\n", u)
		os.Exit(97)
	}
}

type sortKey struct {
	num   int64
	isNum bool
	str   string
}

func keyOf(v interface{}) sortKey {
	switch x := v.(type) {
	case int:
		return sortKey{num: int64(x), isNum: true}
	case uint:
		return sortKey{num: int64(x), isNum: true}
	case int64:
		return sortKey{num: x, isNum: true}
	case string:
		return sortKey{str: x}
	}
	rv := reflect.ValueOf(v)
	if rv.Kind() == reflect.Ptr && !rv.IsNil() {
		return sortKey{str: fmt.Sprintf("%+v", rv.Elem().Interface())}
	}
	return sortKey{str: fmt.Sprintf("%+v", v)}
}

// Keys returns the keys of m in the order chosen by the harness for this
// visit. Every order it can return is an order Go's map iteration may produce.
func Keys[K comparable, V any](site string, m map[K]V) []K {
	keys := make([]K, 0, len(m))
	for k := range m {
		keys = append(keys, k)
	}
	mu.Lock()
	idx := len(visits)
	if logOn {
		visits = append(visits, Visit{Site: site, N: len(keys)})
	} else {
		visits = append(visits, Visit{})
	}
	c := def
	if r, ok := siteRule[site]; ok {
		c = r
	}
	if d, ok := deviate[idx]; ok {
		c = d
	}
	mu.Unlock()
	if c.Kind == Native {
		return keys
	}
	sk := make([]sortKey, len(keys))
	for i, k := range keys {
		sk[i] = keyOf(k)
	}
	ix := make([]int, len(keys))
	for i := range ix {
		ix[i] = i
	}
	sort.SliceStable(ix, func(a, b int) bool {
		x, y := sk[ix[a]], sk[ix[b]]
		if x.isNum && y.isNum {
			return x.num < y.num
		}
		return x.str < y.str
	})
	out := make([]K, len(keys))
	for i, j := range ix {
		out[i] = keys[j]
	}
	Apply(c, len(out), func(i, j int) { out[i], out[j] = out[j], out[i] }, func(p []int) {
		tmp := make([]K, len(out))
		for i, j := range p {
			tmp[i] = out[j]
		}
		copy(out, tmp)
	})
	return out
}

// Apply realises choice c on a sequence of length n through the callbacks.
func Apply(c Choice, n int, swap func(i, j int), permute func(p []int)) {
	if n < 2 {
		return
	}
	switch c.Kind {
	case Reverse:
		for i, j := 0, n-1; i < j; i, j = i+1, j-1 {
			swap(i, j)
		}
	case Rotate:
		r := c.Arg % n
		p := make([]int, n)
		for i := range p {
			p[i] = (i + r) % n
		}
		permute(p)
	case Swap:
		i := c.Arg % (n - 1)
		swap(i, i+1)
	case Perm:
		permute(NthPerm(n, c.Arg))
	case Shuffle:
		r := rand.New(rand.NewSource(int64(c.Arg)))
		permute(r.Perm(n))
	}
}

// NthPerm returns the k-th permutation of 0..n-1 in lexicographic order
// (k taken modulo n!).
func NthPerm(n, k int) []int {
	fact := 1
	for i := 2; i <= n; i++ {
		fact *= i
	}
	k %= fact
	avail := make([]int, n)
	for i := range avail {
		avail[i] = i
	}
	p := make([]int, 0, n)
	for i := n; i >= 1; i-- {
		fact /= i
		j := k / fact
		k %= fact
		p = append(p, avail[j])
		avail = append(avail[:j], avail[j+1:]...)
	}
	return p
}

// Alternatives lists the non-canonical choices explored for a visit of n keys.
func Alternatives(n int) (alts []Choice, capped bool) { return AlternativesUpTo(n, MaxPermN) }

// AlternativesUpTo enumerates all permutations for n <= maxPerm, otherwise
// reversal, rotations and adjacent transpositions (capped = true).
func AlternativesUpTo(n, maxPerm int) (alts []Choice, capped bool) {
	if n < 2 {
		return nil, false
	}
	if n <= maxPerm {
		fact := 1
		for i := 2; i <= n; i++ {
			fact *= i
		}
		for k := 1; k < fact; k++ {
			alts = append(alts, Choice{Kind: Perm, Arg: k})
		}
		return alts, false
	}
	alts = append(alts, Choice{Kind: Reverse})
	for r := 1; r < n; r++ {
		alts = append(alts, Choice{Kind: Rotate, Arg: r})
	}
	for i := 0; i < n-1; i++ {
		alts = append(alts, Choice{Kind: Swap, Arg: i})
	}
	return alts, true
}
