// Package gram holds abstract grammar specifications, the exhaustive
// enumerators of the bounded grammar classes, and the renderers that turn a
// specification into yacc text.
package gram

import (
	"fmt"
	"sort"
	"strings"
)

// Rule is one alternative. Symbols are written as they appear in the .y
// file: an identifier (token or nonterminal) or a character literal 'x'.
type Rule struct {
	L      string   `json:"l"`
	R      []string `json:"r"`
	Prec   string   `json:"prec,omitempty"`   // symbol after %prec, "" if none
	Action string   `json:"action,omitempty"` // text between the braces, "" = no action
	HasAct bool     `json:"has_act,omitempty"`
	// Mid: actions written between the symbols of the right-hand side (mid-rule actions)
	Mid []MidAct `json:"mid,omitempty"`
}

// MidAct is an action written after the first After symbols of a right-hand side.
type MidAct struct {
	After int    `json:"after"`
	Text  string `json:"text"`
}

func (r Rule) String() string {
	s := r.L + ":"
	for _, x := range r.R {
		s += " " + x
	}
	if r.Prec != "" {
		s += " %prec " + r.Prec
	}
	return s
}

type TokDecl struct {
	Name string `json:"name"` // identifier or 'x'
	Num  int    `json:"num,omitempty"`
	// NumText: how the number is spelled in the file when not plain decimal without padding ("010", "-007")
	NumText string `json:"num_text,omitempty"`
	Tag     string `json:"tag,omitempty"`
	// Alias: a string written after the name (and number): `%token NAME 300 "alias"`; it names no symbol
	Alias string `json:"alias,omitempty"`
	// Via: "token" (default), or "" when the token is only introduced by a
	// precedence line / by use in a rule.
	NoTokenLine bool `json:"no_token_line,omitempty"`
}

type PrecLevel struct {
	Assoc string   `json:"assoc"` // left | right | nonassoc
	Toks  []string `json:"toks"`
	Tag   string   `json:"tag,omitempty"` // %left <tag> ...: value tag given to every token of the line
	// Nums: explicit token numbers written after the names on the precedence line (`%left MINUS 301 PLUS`),
	// parallel to Toks, 0 = none
	Nums []int `json:"nums,omitempty"`
	// NumTexts: how a number of Nums is spelled when not plain decimal without padding ("0301"), parallel to Toks
	NumTexts []string `json:"num_texts,omitempty"`
	// Aliases: a string written after a name (and its number) on the precedence line (`%left PLUS "+" MINUS`),
	// parallel to Toks, "" = none; as on %token lines it names no symbol
	Aliases []string `json:"aliases,omitempty"`
}

// NumText is the spelling of the i-th number of the line.
func (p PrecLevel) NumText(i int) string {
	if i < len(p.NumTexts) && p.NumTexts[i] != "" {
		return p.NumTexts[i]
	}
	return fmt.Sprint(p.Nums[i])
}

type TypeDecl struct {
	Tag   string   `json:"tag"`
	Names []string `json:"names"`
}

type Spec struct {
	Prologue string `json:"prologue,omitempty"`
	// MorePrologue: further %{ ... %} blocks, written after the declarations;
	// a text without line break is written on one line (`%{ text %}`)
	MorePrologue []string  `json:"more_prologue,omitempty"`
	Union        string    `json:"union,omitempty"`
	HasUnion     bool      `json:"has_union,omitempty"`
	Tokens       []TokDecl `json:"tokens"`
	LateTokens   []TokDecl `json:"late_tokens,omitempty"` // %token lines written after the precedence lines
	// RawDecls: lines written verbatim after the first %token lines (directives the model does not know)
	RawDecls    []string    `json:"raw_decls,omitempty"`
	Prec        []PrecLevel `json:"prec,omitempty"`
	Types       []TypeDecl  `json:"types,omitempty"`
	Start       string      `json:"start,omitempty"`
	Rules       []Rule      `json:"rules"`
	Epilogue    string      `json:"epilogue,omitempty"`
	HasEpilogue bool        `json:"has_epilogue,omitempty"`
}

// IsLit reports whether a symbol is written as a character literal.
func IsLit(s string) bool { return len(s) >= 3 && s[0] == '\'' }

// LitChar returns the character denoted by a literal symbol.
func LitChar(s string) byte {
	if s == `'\''` {
		return '\''
	}
	return s[1]
}

// LitRune returns the character denoted by a literal symbol (any Unicode character).
func LitRune(s string) rune {
	if s == `'\''` {
		return '\''
	}
	for _, r := range s[1:] {
		return r
	}
	return 0
}

// InternalName is the name yaccgo gives to a symbol.
func InternalName(s string) string {
	if IsLit(s) {
		return "$operator" + string(LitRune(s))
	}
	return s
}

// Nonterminals returns the left-hand sides in order of first appearance.
func (s *Spec) Nonterminals() []string {
	var out []string
	seen := map[string]bool{}
	for _, r := range s.Rules {
		if !seen[r.L] {
			seen[r.L] = true
			out = append(out, r.L)
		}
	}
	return out
}

// Terminals returns every terminal: declared ones in declaration order, then
// precedence-only ones, then literals that only occur in rules.
func (s *Spec) Terminals() []string {
	var out []string
	seen := map[string]bool{}
	add := func(n string) {
		if !seen[n] {
			seen[n] = true
			out = append(out, n)
		}
	}
	for _, t := range s.Tokens {
		add(t.Name)
	}
	for _, p := range s.Prec {
		for _, t := range p.Toks {
			add(t)
		}
	}
	for _, r := range s.Rules {
		for _, x := range r.R {
			if IsLit(x) {
				add(x)
			}
		}
		if IsLit(r.Prec) {
			add(r.Prec)
		}
	}
	return out
}

// StartSymbol is the declared start symbol or the left side of the first rule
// named `start` convention is not used by the harness: Start is always set.
func (s *Spec) StartSymbol() string {
	if s.Start != "" {
		return s.Start
	}
	return "start"
}

// Render writes the specification in the canonical layout (the one used by
// the repository's examples).
func (s *Spec) Render() string {
	var b strings.Builder
	if s.Prologue != "" {
		b.WriteString("%{\n" + s.Prologue + "\n%}\n")
	}
	if s.HasUnion || s.Union != "" {
		b.WriteString("%union {" + s.Union + "}\n")
	}
	for _, t := range s.Tokens {
		if t.NoTokenLine {
			continue
		}
		b.WriteString("%token ")
		if t.Tag != "" {
			b.WriteString("<" + t.Tag + "> ")
		}
		b.WriteString(t.Name)
		if t.Num != 0 {
			b.WriteString(" " + t.numText())
		}
		if t.Alias != "" {
			b.WriteString(" \"" + t.Alias + "\"")
		}
		b.WriteString("\n")
	}
	for _, l := range s.RawDecls {
		b.WriteString(l + "\n")
	}
	for _, p := range s.Prec {
		b.WriteString("%" + p.Assoc)
		if p.Tag != "" {
			b.WriteString(" <" + p.Tag + ">")
		}
		for i, t := range p.Toks {
			b.WriteString(" " + t)
			if i < len(p.Nums) && p.Nums[i] != 0 {
				b.WriteString(" " + p.NumText(i))
			}
			if i < len(p.Aliases) && p.Aliases[i] != "" {
				b.WriteString(" \"" + p.Aliases[i] + "\"")
			}
		}
		b.WriteString("\n")
	}
	for _, t := range s.LateTokens {
		b.WriteString("%token ")
		if t.Tag != "" {
			b.WriteString("<" + t.Tag + "> ")
		}
		b.WriteString(t.Name)
		if t.Num != 0 {
			b.WriteString(" " + t.numText())
		}
		if t.Alias != "" {
			b.WriteString(" \"" + t.Alias + "\"")
		}
		b.WriteString("\n")
	}
	for _, t := range s.Types {
		b.WriteString("%type <" + t.Tag + ">")
		for _, n := range t.Names {
			b.WriteString(" " + n)
		}
		b.WriteString("\n")
	}
	if s.Start != "" {
		b.WriteString("%start " + s.Start + "\n")
	}
	for _, p := range s.MorePrologue {
		if strings.Contains(p, "\n") {
			b.WriteString("%{\n" + p + "\n%}\n")
		} else {
			b.WriteString("%{ " + p + " %}\n")
		}
	}
	b.WriteString("%%\n")
	for i, r := range s.Rules {
		if i > 0 && s.Rules[i-1].L == r.L {
			b.WriteString("  |")
		} else {
			if i > 0 {
				b.WriteString("  ;\n")
			}
			b.WriteString(r.L + " :")
		}
		for xi, x := range r.R {
			for _, m := range r.Mid {
				if m.After == xi {
					b.WriteString(" {" + m.Text + "}")
				}
			}
			b.WriteString(" " + x)
		}
		if r.Prec != "" {
			b.WriteString(" %prec " + r.Prec)
		}
		if r.HasAct || r.Action != "" {
			b.WriteString(" {" + r.Action + "}")
		}
		b.WriteString("\n")
	}
	if len(s.Rules) > 0 {
		b.WriteString("  ;\n")
	}
	if s.HasEpilogue || s.Epilogue != "" {
		b.WriteString("%%\n" + s.Epilogue)
	}
	return b.String()
}

// ---------------------------------------------------------------------------
// Bounded classes

// Class G(N,T,L,R): every set of at most R distinct rules over N nonterminals
// and T terminals with right-hand sides of length at most L, rules listed in
// lexicographic order of their index in the rule universe.
type Class struct {
	N, T, L, R int
}

func (c Class) String() string { return fmt.Sprintf("G(%d,%d,%d,<=%d)", c.N, c.T, c.L, c.R) }

var NTNames = []string{"S", "A", "B", "C"}
var TNames = []string{"TA", "TB", "TC", "TD"}

// TChar is the input character that the harness lexer maps to terminal i.
var TChars = "abcd"

// Universe lists every available rule of the class in canonical order:
// by left side, then by right-hand-side length, then lexicographically with
// nonterminals before terminals.
func (c Class) Universe() []Rule {
	var syms []string
	syms = append(syms, NTNames[:c.N]...)
	syms = append(syms, TNames[:c.T]...)
	var rhss [][]string
	var rec func(cur []string, l int)
	for l := 0; l <= c.L; l++ {
		rec = func(cur []string, left int) {
			if left == 0 {
				rhss = append(rhss, append([]string(nil), cur...))
				return
			}
			for _, s := range syms {
				rec(append(cur, s), left-1)
			}
		}
		rec(nil, l)
	}
	var u []Rule
	for n := 0; n < c.N; n++ {
		for _, rhs := range rhss {
			u = append(u, Rule{L: NTNames[n], R: rhs})
		}
	}
	return u
}

// Enumerate calls f with every rule set of the class (as ascending index
// lists into the universe), including sets in which the start symbol has no
// rule when all is true. idx is the running number of the set (over all
// sets), so that callers can shard deterministically. f returns false to stop.
func (c Class) Enumerate(all bool, f func(idx int64, rules []int) bool) int64 {
	u := c.Universe()
	n := len(u)
	var idx int64
	cur := make([]int, 0, c.R)
	stop := false
	var rec func(start int)
	rec = func(start int) {
		if stop {
			return
		}
		if len(cur) > 0 {
			ok := all
			if !ok {
				for _, i := range cur {
					if u[i].L == "S" {
						ok = true
						break
					}
				}
			}
			if ok {
				if !f(idx, cur) {
					stop = true
					return
				}
				idx++
			}
		}
		if len(cur) == c.R {
			return
		}
		for i := start; i < n; i++ {
			cur = append(cur, i)
			rec(i + 1)
			cur = cur[:len(cur)-1]
			if stop {
				return
			}
		}
	}
	rec(0)
	return idx
}

// SpecOf builds the specification for a rule set of the class: all T
// terminals are declared with %token, S is the start symbol.
func (c Class) SpecOf(u []Rule, rules []int) *Spec {
	s := &Spec{Start: "S"}
	for t := 0; t < c.T; t++ {
		s.Tokens = append(s.Tokens, TokDecl{Name: TNames[t]})
	}
	for _, i := range rules {
		s.Rules = append(s.Rules, Rule{L: u[i].L, R: u[i].R})
	}
	// group alternatives of one nonterminal together is NOT done: rule order
	// is the enumeration order (already grouped by left side).
	return s
}

// Key is a compact canonical text of the rules (used as identity of a grammar
// in replay files and known-finding entries).
func (s *Spec) Key() string {
	var parts []string
	for _, r := range s.Rules {
		parts = append(parts, r.String())
	}
	k := strings.Join(parts, " ; ")
	if len(s.Prec) > 0 {
		var ps []string
		for _, p := range s.Prec {
			ps = append(ps, "%"+p.Assoc+" "+strings.Join(p.Toks, " "))
		}
		k = strings.Join(ps, " ") + " %% " + k
	}
	return k
}

// SortedCopy returns a sorted copy of a string slice.
func SortedCopy(x []string) []string {
	y := append([]string(nil), x...)
	sort.Strings(y)
	return y
}

// Renamed returns a copy of the specification with symbols renamed (names
// not in the map stay). Token declarations, precedence lines, %type lists,
// the start symbol and every rule are rewritten.
func (s *Spec) Renamed(m map[string]string) *Spec {
	rn := func(x string) string {
		if y, ok := m[x]; ok {
			return y
		}
		return x
	}
	c := *s
	c.Tokens = nil
	for _, t := range s.Tokens {
		t.Name = rn(t.Name)
		c.Tokens = append(c.Tokens, t)
	}
	c.LateTokens = nil
	for _, t := range s.LateTokens {
		t.Name = rn(t.Name)
		c.LateTokens = append(c.LateTokens, t)
	}
	c.Prec = nil
	for _, p := range s.Prec {
		q := PrecLevel{Assoc: p.Assoc, Tag: p.Tag}
		for _, t := range p.Toks {
			q.Toks = append(q.Toks, rn(t))
		}
		c.Prec = append(c.Prec, q)
	}
	c.Types = nil
	for _, t := range s.Types {
		q := TypeDecl{Tag: t.Tag}
		for _, n := range t.Names {
			q.Names = append(q.Names, rn(n))
		}
		c.Types = append(c.Types, q)
	}
	c.Start = rn(s.Start)
	c.Rules = nil
	for _, r := range s.Rules {
		q := r
		q.L = rn(r.L)
		q.R = nil
		for _, x := range r.R {
			q.R = append(q.R, rn(x))
		}
		q.Prec = rn(r.Prec)
		c.Rules = append(c.Rules, q)
	}
	return &c
}

func (t TokDecl) numText() string {
	if t.NumText != "" {
		return t.NumText
	}
	return fmt.Sprint(t.Num)
}
