package gram

import "strings"

// Family grammars: hand-written shapes that the size-bounded classes exclude
// or that separate the classic grammar classes.

type Named struct {
	Name string
	Spec *Spec
}

// Parse builds a Spec from a compact notation: rules separated by ';',
// "L: x y | z |" (an empty alternative is written as nothing between bars).
// Upper-case identifiers starting with 'T' or character literals are
// terminals; toks lists the named tokens to declare.
func Parse(start string, toks []string, rules string) *Spec {
	s := &Spec{Start: start}
	for _, t := range toks {
		s.Tokens = append(s.Tokens, TokDecl{Name: t})
	}
	for _, part := range strings.Split(rules, ";") {
		part = strings.TrimSpace(part)
		if part == "" {
			continue
		}
		i := strings.Index(part, ":")
		l := strings.TrimSpace(part[:i])
		for _, alt := range strings.Split(part[i+1:], "|") {
			f := strings.Fields(alt)
			r := Rule{L: l}
			for j := 0; j < len(f); j++ {
				if f[j] == "%prec" {
					r.Prec = f[j+1]
					j++
					continue
				}
				r.R = append(r.R, f[j])
			}
			s.Rules = append(s.Rules, r)
		}
	}
	return s
}

func (s *Spec) WithPrec(levels ...string) *Spec {
	for _, l := range levels {
		f := strings.Fields(l)
		s.Prec = append(s.Prec, PrecLevel{Assoc: f[0], Toks: f[1:]})
	}
	return s
}

var abc = []string{"TA", "TB", "TC", "TD"}

// Families returns the family list.
func Families() []Named {
	return []Named{
		{"lr0-simple", Parse("S", abc[:2], "S: TA S TB | TA TB")},
		{"slr-expr", Parse("E", []string{"TA"}, "E: E '+' T | T ; T: T '*' F | F ; F: '(' E ')' | TA")},
		// LALR(1) but not SLR(1)
		{"lalr-not-slr", Parse("S", abc[:4], "S: L TA R | R ; L: TB R | TC ; R: L")},
		// LALR(1) but not NQLALR(1); also trips include-relations without a path condition
		{"lalr-not-nqlalr", Parse("S", abc[:4], "S: TA B TC | TB B TD | TA TC TD ; B: A ; A: TC")},
		{"lalr-path", Parse("S", abc[:4], "S: TA A TC | TB A TD | TA TD TC ; A: TD")},
		// LR(1) but not LALR(1): genuine reduce/reduce conflict after merging
		{"lr1-not-lalr", Parse("S", abc[:4], "S: TA A TC | TA B TD | TB A TD | TB B TC ; A: TC ; B: TC")},
		{"nullable-chain", Parse("S", abc[:3], "S: A B C TA ; A: | TA ; B: | TB ; C: | TC")},
		{"nullable-mid", Parse("S", abc[:3], "S: TA A TB | TA B TC ; A: ; B: ")},
		{"nullable-rec", Parse("S", abc[:2], "S: A S TA | TB ; A: ")},
		{"left-rec", Parse("S", abc[:2], "S: S TA | TB")},
		{"right-rec", Parse("S", abc[:2], "S: TA S | TB")},
		{"mutual-rec", Parse("S", abc[:3], "S: A TA | TC ; A: S TB | TC TC")},
		{"cyclic-unit", Parse("S", abc[:2], "S: A | TA ; A: S | TB")},
		{"self-cycle", Parse("S", abc[:1], "S: S | TA")},
		{"ambiguous-ss", Parse("S", abc[:1], "S: S S | TA | ")},
		{"ambig-expr", Parse("E", []string{"TA"}, "E: E '+' E | E '*' E | TA")},
		{"ambig-expr-prec", Parse("E", []string{"TA"}, "E: E '+' E | E '*' E | '-' E %prec TU | '(' E ')' | TA").
			WithPrec("left '+'", "left '*'", "right TU")},
		{"dangling-else", Parse("S", abc[:3], "S: TA S | TA S TB S | TC")},
		{"two-paths-one-state", Parse("S", abc[:3], "S: TA A | TB A ; A: TC A | TC")},
		{"long-rhs", Parse("S", abc[:3], "S: TA TB TC TA TB TC | TA TB TC TA TB | A TC ; A: TA TB TC TA")},
		{"rr-order", Parse("S", abc[:1], "S: A | B ; A: TA ; B: TA")},
		{"rr-order-3", Parse("S", abc[:2], "S: A TB | B TB | C TB; A: TA ; B: TA ; C: TA")},
		{"unreachable-nt", Parse("S", abc[:2], "S: TA ; A: TB A | TB")},
		{"lookback-path", Parse("S", abc[:4], "S: TA A TB | TC A TD | TC TA TB ; A: TA")},
		{"list-of-lists", Parse("S", abc[:3], "S: S TA L | L ; L: L TB | ; ")},
		{"palindrome-ish", Parse("S", abc[:2], "S: TA S TA | TB S TB | TA | TB")},
		{"literal-percent", &Spec{Start: "S", Tokens: []TokDecl{{Name: "TA"}}, Rules: []Rule{{L: "S", R: []string{"S", "'%'", "TA"}}, {L: "S", R: []string{"TA"}}}}},
		{"literal-dquote", &Spec{Start: "S", Tokens: []TokDecl{{Name: "TA"}}, Rules: []Rule{{L: "S", R: []string{"S", "'\"'", "TA"}}, {L: "S", R: []string{"TA"}}}}},
		{"literal-record-chars", &Spec{Start: "S", Tokens: []TokDecl{{Name: "TA"}}, Rules: []Rule{{L: "S", R: []string{"'{'", "S", "'}'"}}, {L: "S", R: []string{"S", "'|'", "TA"}}, {L: "S", R: []string{"'<'", "TA", "'>'"}}, {L: "S", R: []string{"TA"}}}}},
		// shapes taken from seeded changes that the size-bounded classes cannot reach
		// a cycle in `includes` (mutual right recursion) entered before a later exit context:
		{"scc-includes-late-exit", Parse("S", nil, "S: A | 'c' 'c' 'c' A 'd' | 'e' 'e' 'e' B 'f' ; A: 'a' B | 'a' 'y' 'w' | 'x' ; B: 'b' A | 'b' 'x' 'z' | 'y'")},
		{"scc-includes-order", Parse("P", nil, "P: 'x' Q 's' | 'y' 'u' 'v' Q 't' ; Q: 'p' R | 'm' O ; R: | 'q' Q | 'q' 'm' 'w' ; O: | 'n'")},
		// two transitions including the same one, each with its own read set, follow set of size 3:
		{"shared-follow-3", Parse("S", nil, "S: B 'x' | B 'y' | B 'z' ; B: 'a' P C | 'b' Q D ; P: 'p' ; Q: 'q' ; C: | 'c' ; D: | 'd'")},
		{"shared-follow-5", Parse("S", nil, "S: B 'x' | B 'y' | B 'z' | B 'u' | B 'v' ; B: 'a' P C | 'b' Q D ; P: 'p' ; Q: 'q' ; C: | 'c' ; D: | 'd'")},
		// a rule with more than nine right-hand-side symbols ($10, $11 in actions)
		{"rhs-11", Parse("S", abc[:2], "S: TA TB TA TB TA TB TA TB TA TB TA | TB")},
		{"prec-literal", Parse("E", []string{"TA"}, "E: E '-' E | E '*' E | '-' E %prec '*' | TA").WithPrec("left '-'", "left '*'")},
		// identifiers that differ only in letter case
		{"case-twins", Parse("S", []string{"TA", "Ta", "tA"}, "S: s TA | Ta ; s: TA Ta | tA")},
		// a nonterminal that is nullable only through a non-empty rule written BEFORE the rules that make
		// its parts nullable (several fixpoint passes needed), last production not an epsilon rule
		{"nullable-late", Parse("S", abc[:4], "S: X N TA ; N: M ; M: A B ; A: | TB ; B: | TC ; X: TD")},
		// no %start: the documented default start symbol is the nonterminal named `start`
		// (which is also the name of yaccgo's internal augmented symbol)
		{"default-start", Parse("", abc[:2], "start: start TA A | A ; A: TB | ")},
		// the same production written twice (legal yacc), with further rules after the second copy
		{"duplicate-rule", Parse("E", []string{"TA"}, "E: E '+' T | T | T ; T: T '*' F | F ; F: '(' E ')' | TA")},
		// a %nonassoc level above several left-associative ones: in the state E '<' E . the reductions outnumber the error entries
		{"nonassoc-high", Parse("E", []string{"TA"}, "E: E '+' E | E '-' E | E '*' E | E '<' E | '(' E ')' | TA").WithPrec("left '+' '-' '*'", "nonassoc '<'")},
		// several transitions on one nonterminal enter the same state, which shifts exactly three terminals
		{"shared-dr-3", Parse("S", []string{"TA", "TB"}, "S: '[' I ']' | '(' I ')' ; I: A '+' TB | A '-' TB | A '*' TB | A ; A: TA | TB")},
		// right-hand sides of more than 16 symbols
		{"rhs-17-right-recursive", Parse("L", abc[:2], "L: TA TA TA TA TA TA TA TA TA TA TA TA TA TA TA TA L | TB")},
		{"rhs-18-nonterminal-at-16", Parse("S", abc[:3], "S: TC | TA TA TA TA TA TA TA TA TA TA TA TA TA TA TA TA A TB ; A: TC | TA A")},
		// a goto set with two kernel items (dot at the end / before a terminal) reached from two
		// predecessors that list them in different order
		{"kernel-order", Parse("S", nil, "S: 'p' M | 'q' N ; M: C | A ; N: A | E ; C: 'y' B 'c' ; A: 'y' 'x' ; E: 'y' B 'z' ; B: 'x'")},
		// names with letters beyond ASCII (yaccgo accepts Unicode letters in identifiers)
		{"unicode-names", Parse("S", []string{"TÄ", "TB"}, "S: größe TÄ | TÄ ; größe: TÄ TB | größe TB")},
		{"nonassoc-cmp", Parse("E", []string{"TA"}, "E: E '<' E | E '+' E | TA").WithPrec("nonassoc '<'", "left '+'")},
		// %prec naming a token that is declared but has no precedence level (legal yacc: the rule then has none)
		{"prec-of-plain-token", Parse("E", []string{"TA", "TU"}, "E: E '+' E | '-' E %prec TU | TA").WithPrec("left '+'")},
		{"prec-of-plain-literal", Parse("E", []string{"TA"}, "E: E '+' E | '-' E %prec '!' | '!' TA | TA").WithPrec("left '+'")},
		// symbol names that are prefixes of one another: the alternatives K KK and KK K spell the same text
		{"name-prefixes", Parse("S", []string{"K", "KK"}, "S: K KK | KK K | KK KK K | s ss ; s: K K ; ss: KK KK")},
		// a desk calculator: more than ten symbols and more than twenty states (two-digit ids on both sides)
		{"calc-15", Parse("prog", []string{"TNUM", "TID", "TSEMI"}, "prog: prog cmd | cmd ; cmd: expr TSEMI | TID '=' expr TSEMI ; expr: expr '+' term | expr '-' term | term ; term: term '*' fact | fact ; fact: TNUM | TID | '(' expr ')'")},
		// the default start symbol (`start`, also the name of yaccgo's augmented symbol) used deep inside right-hand sides
		{"default-start-nested", Parse("", abc[:3], "start: TA start TB | TC | A ; A: TB start")},
		// a nonterminal defined in two places, a reduce/reduce conflict between the rule in between and a later alternative
		{"rr-split-groups", Parse("S", abc[:2], "S: A | B ; A: TB ; B: TA ; A: TA")},
		// an empty rule reduced at a depth that grows with the input (right recursion with an empty base; nesting)
		{"right-rec-empty-base", Parse("L", abc[:1], "L: TA L | ")},
		{"nested-optional", Parse("S", nil, "S: '(' O ')' ; O: | S")},
		// a token named like identifiers of the generated code (`c` is the parameter of translate, `conv` its result)
		{"token-named-c", Parse("S", []string{"a", "b", "c", "conv", "d"}, "S: S item | item ; item: a | b | c | conv d")},
		// more left-recursive alternatives than the grammar has symbols, the base case written last
		{"many-left-recursive-alternatives", Parse("L", nil, "L: L ',' I | L '+' I | L ',' '+' I | L '+' ',' I | L ',' ',' I | L '+' '+' I | I ; I: 'x'")},
		// bison's %precedence line (a level without associativity) for the unary operator
		{"precedence-directive", Parse("E", []string{"TA", "TU"}, "E: E '+' E | E '*' E | '-' E %prec TU | '(' E ')' | TA").
			WithPrec("left '+'", "left '*'", "precedence TU")},
		// no %start and the nonterminal `start` is not the first rule; `%start start` written out, start not first
		{"default-start-not-first", Parse("", abc[:3], "A: TB | TC A ; start: start TA A | TA A")},
		{"start-start-not-first", Parse("start", abc[:3], "A: TB | TC A ; start: start TA A | TA A")},
		// a reduce/reduce conflict between two rules that carry the same precedence level
		{"rr-same-level-left", Parse("S", []string{"TA", "TC"}, "S: V | C ; V: TA %prec TC ; C: TA %prec TC").WithPrec("left TC")},
		// the same production written twice (legal: a reduce/reduce conflict that goes to the first copy), more rules after it
		{"duplicate-rule", Parse("S", nil, "S: A B ; A: 'x' | 'x' ; B: 'y' | 'z' B")},
		// two nonterminals whose nullability depends on each other, one of them with an empty alternative,
		// used behind another nonterminal
		{"nullable-cycle", Parse("S", []string{"TP", "TO", "TB", "TE"}, "S: P O Y T ; H: O ; P: TP ; Y: TB ; T: TE ; O: H TO | ")},
		// a leftmost chain over five nonterminals, written neither top-down nor bottom-up
		{"leftmost-chain-mixed-order", Parse("S", abc[:3], "S: A TA ; D: TB ; A: B TB ; C: D TA ; B: C TC")},
		// named tokens declared with string aliases, one alias spelled like a nonterminal of the grammar
		{"aliased-tokens", func() *Spec {
			s := Parse("S", []string{"TN", "TP"}, "S: S TP N | N ; N: TN")
			s.Tokens = []TokDecl{{Name: "TN", Alias: "N"}, {Name: "TP", Alias: "+"}}
			return s
		}()},
		// rule 1 has twelve symbols and there are eleven rules (item (1, 11) and item (11, 1) must stay different states)
		{"long-rule-one-and-eleven-rules", Parse("log", []string{"TN", "TW"}, "stamp: TN '-' TN '-' TN 'T' TN '.' TN '.' TN 'Z' | '@' TN '/' frac 'Z' | '@' TN 'Z' ; log: | log entry ; entry: stamp level TW ',' | stamp ',' ; level: 'E' | 'W' | 'I' ; frac: TN")},
		// an alternative with %prec stands before the alternatives of the binary operators in one group
		{"prec-alternative-first", Parse("E", []string{"TA", "TU"}, "E: '-' E %prec TU | E '<' E | E '+' E | TA").
			WithPrec("left '+'", "nonassoc '<'", "right TU")},
		// a state with nine terminal transitions; an item that comes late in its closure continues on the first of them
		{"wide-state", Parse("S", []string{"TA", "TB", "TC", "TD", "TE", "TF", "TG", "TH", "TI", "TX"}, "S: TA TX | TB TX | TC TX | TD TX | TE TX | TF TX | TG TX | TH TX | TI TX | C TX ; C: TA TB")},
		// dangling else where the declarations make the reduction win: the state behind the else is cut off, with its successors
		{"dangling-else-reduce-wins", Parse("S", []string{"TI", "TE", "TA"}, "S: TI S | TI S TE S | TA").WithPrec("left TE", "left TI")},
		// names longer than sixteen characters that share their first sixteen
		{"long-names-common-prefix", Parse("translation_unit_list", []string{"TA", "TB"}, "translation_unit_list: argument_expression_list TA | argument_expression_tail TB ; argument_expression_list: TA ; argument_expression_tail: TB TA")},
		// two literals beyond ASCII, the code point of one equals the first UTF-8 byte of the other (U+00D0, U+0436 = D0 B6)
		{"literals-beyond-ascii", Parse("S", nil, "S: '\u00d0' 'x' | '\u0436' 'y'")},
		// a goto target gets a further kernel item that has a terminal behind the dot, and the same item set is reached a second way
		{"late-kernel-item", Parse("top", []string{"TP", "TX", "TY", "TZ", "TM"}, "top: s | TP s TZ ; s: TX n TZ | TX TY ; n: TY ; top: TP TX mm ; mm: TM")},
		{"rr-same-level-right", Parse("S", []string{"TA", "TC"}, "S: V TA | C TA | V ; V: TA %prec TC ; C: TA %prec TC").WithPrec("right TC")},
	}
}

// BigFamilies are family grammars with large automata; they take part in the
// table-level explorations and in the generated-parser corpus, but not in the
// text-edit and permutation explorations (whose cost grows with the text and
// with the number of states).
func BigFamilies() []Named {
	return []Named{
		// an automaton with more than 300 states, every one of them entered by a terminal
		// (state numbers reach the neighbourhood of the codes used for "error" and "accept")
		{"trie-256", Trie(abc[:4], 4)},
		// a rule with more than 256 right-hand-side symbols, a nonterminal behind position 256
		{"rhs-258", LongRule(256)},
	}
}

// PermFamilies: grammars for the table-level explorations only: one with seventy terminals, and every order of
// the rules of a few small grammars (the start symbol is declared, so the order of the rules means nothing).
func PermFamilies() []Named {
	var out []Named
	bases := []struct {
		name  string
		start string
		terms []string
		rules []string
	}{
		{"leftmost-chain", "S", abc[:3], []string{"S: A TA", "A: B TB", "B: C TC", "C: D TA", "D: TB"}},
		{"nullable-cycle", "S", []string{"TP", "TO", "TB"}, []string{"S: P O Y", "H: O", "O: H TO", "O: ", "P: TP", "Y: TB"}},
	}
	// seventy terminals (symbol numbers beyond 64): a reduction whose lookahead set is the whole alphabet, and
	// a reduce/reduce conflict under the terminal with the highest number
	{
		var terms, alts []string
		for i := 1; i <= 70; i++ {
			t := "TA" + itoa(i/10) + itoa(i%10)
			terms = append(terms, t)
			alts = append(alts, t)
		}
		out = append(out, Named{Name: "seventy-terminals", Spec: Parse("S", terms, "S: H T | V TA70 | W TA70 TA01 ; H: TA01 ; V: TA02 ; W: TA02 ; T: "+strings.Join(alts, " | "))})
	}
	for _, b := range bases {
		n := len(b.rules)
		idx := make([]int, n)
		for i := range idx {
			idx[i] = i
		}
		var rec func(k int)
		count := 0
		rec = func(k int) {
			if k == n {
				var rs []string
				for _, i := range idx {
					rs = append(rs, b.rules[i])
				}
				count++
				out = append(out, Named{Name: b.name + "/order-" + itoa(count), Spec: Parse(b.start, b.terms, strings.Join(rs, " ; "))})
				return
			}
			for i := k; i < n; i++ {
				idx[k], idx[i] = idx[i], idx[k]
				rec(k + 1)
				idx[k], idx[i] = idx[i], idx[k]
			}
		}
		rec(0)
	}
	return out
}

// Trie is the grammar whose sentences are all strings of exactly n terminals:
// one rule per string, so the automaton is the trie of the strings
// (1 + t + t^2 + ... + t^n states plus the accepting ones).
func Trie(terms []string, n int) *Spec {
	var alts []string
	var rec func(cur []string)
	rec = func(cur []string) {
		if len(cur) == n {
			alts = append(alts, strings.Join(cur, " "))
			return
		}
		for _, t := range terms {
			rec(append(append([]string(nil), cur...), t))
		}
	}
	rec(nil)
	return Parse("S", terms, "S: "+strings.Join(alts, " | "))
}

// Named2 is a named grammar text.
type Named2 struct {
	Name string
	Text string
	// NoEdits: use the whole text only (no prefixes, no edits)
	NoEdits bool
	// Epilogue: the program section of the text when it is known exactly ("" = unknown)
	Epilogue string
}

// LongRule: S: X ; X: TA^n Y TC ; Y: TA | TB  (the rule for X has n+2 symbols).
func LongRule(n int) *Spec {
	body := strings.Repeat("TA ", n)
	return Parse("S", abc[:3], "S: X ; X: "+body+"Y TC ; Y: TA | TB")
}
