package gram

import "strings"

// Layout exploration: a specification is a sequence of atoms; between two
// atoms there is a gap that takes one separator.

type Atom struct {
	Text string
	// Gap before this atom: 'W' = some separator is required (two words
	// would otherwise fuse), 'O' = the empty separator is allowed too,
	// 0 = first atom.
	Gap byte
	// Canon is the separator of the canonical layout (the style of the
	// repository's examples: directives, rule heads, '|' and ';' start a line)
	Canon string
}

// Separators that yacc syntax allows in a gap. The empty one only in 'O' gaps.
var Separators = []string{" ", "\n", "\t", "/* c */", "// c\n", " \n\t ", "/** c **/", "/* a * b / c */", "\r\n", "/*/ c */", ""}

type LayoutOpts struct {
	NoSemicolon bool // omit the optional ';' after each rule group
	RepeatLHS   bool // write alternatives as repeated `A :` instead of `|`
	GroupDecls  bool // consecutive %token declarations with the same tag share one `%token` line
}

// Atoms lists the atoms of the specification.
func (s *Spec) Atoms(o LayoutOpts) []Atom {
	var a []Atom
	ruleHead := false
	add := func(gap byte, text string) {
		if len(a) == 0 {
			gap = 0
		}
		canon := " "
		if (strings.HasPrefix(text, "%") && text != "%prec") || text == "|" || text == ";" || ruleHead {
			canon = "\n"
		}
		ruleHead = false
		a = append(a, Atom{Text: text, Gap: gap, Canon: canon})
	}
	if s.Prologue != "" {
		add('O', "%{\n"+s.Prologue+"\n%}")
	}
	if s.HasUnion || s.Union != "" {
		add('W', "%union")
		add('O', "{"+s.Union+"}")
	}
	var prevTok *TokDecl
	for _, t := range s.Tokens {
		if t.NoTokenLine {
			continue
		}
		if o.GroupDecls && prevTok != nil && prevTok.Tag == t.Tag && prevTok.Name != t.Name {
			// continuation of the previous %token line: NAME [number] NAME [number] ...
			if IsLit(t.Name) {
				add('O', t.Name)
			} else {
				add('W', t.Name)
			}
			a[len(a)-1].Canon = " "
			if t.Num != 0 {
				add('W', t.numText())
			}
			if t.Alias != "" {
				add('O', "\""+t.Alias+"\"")
				a[len(a)-1].Canon = " "
			}
			tt := t
			prevTok = &tt
			continue
		}
		tt := t
		prevTok = &tt
		add('W', "%token")
		if t.Tag != "" {
			add('O', "<")
			add('O', t.Tag)
			add('O', ">")
			add('O', t.Name)
		} else if IsLit(t.Name) {
			add('O', t.Name) // %token'+' is legal: the quote ends the keyword
		} else {
			add('W', t.Name)
		}
		if t.Num != 0 {
			add('W', t.numText())
		}
		if t.Alias != "" {
			add('O', "\""+t.Alias+"\"")
			a[len(a)-1].Canon = " "
		}
	}
	for _, p := range s.Prec {
		add('W', "%"+p.Assoc)
		prevLit := false
		if p.Tag != "" {
			add('O', "<")
			add('O', p.Tag)
			add('O', ">")
			prevLit = true // no separator needed after '>'
		}
		for i, t := range p.Toks {
			if IsLit(t) || ((i > 0 || p.Tag != "") && prevLit) {
				add('O', t)
			} else {
				add('W', t)
			}
			prevLit = IsLit(t)
			if i < len(p.Nums) && p.Nums[i] != 0 {
				add('W', p.NumText(i))
				prevLit = false
			}
			if i < len(p.Aliases) && p.Aliases[i] != "" {
				add('O', "\""+p.Aliases[i]+"\"")
				prevLit = true
			}
		}
	}
	for _, t := range s.Types {
		add('W', "%type")
		add('O', "<")
		add('O', t.Tag)
		add('O', ">")
		for i, n := range t.Names {
			if i == 0 {
				add('O', n)
			} else {
				add('W', n)
			}
		}
	}
	if s.Start != "" {
		add('W', "%start")
		add('W', s.Start)
	}
	add('W', "%%")
	for i, r := range s.Rules {
		same := i > 0 && s.Rules[i-1].L == r.L
		switch {
		case same && !o.RepeatLHS:
			add('O', "|")
		default:
			if i > 0 && !o.NoSemicolon {
				add('O', ";")
			}
			ruleHead = true
			add('W', r.L)
			if i == 0 {
				a[len(a)-1].Gap = 'W'
			}
			add('O', ":")
		}
		prevWord := false
		for xi, x := range r.R {
			for _, m := range r.Mid {
				if m.After == xi {
					add('O', "{"+m.Text+"}")
					prevWord = false
				}
			}
			g := byte('O')
			if prevWord && !IsLit(x) {
				g = 'W'
			}
			// after ':' or '|' no separator is needed; between two
			// identifiers one is
			add(g, x)
			prevWord = !IsLit(x)
		}
		if r.Prec != "" {
			add('O', "%prec")
			if IsLit(r.Prec) {
				add('O', r.Prec)
			} else {
				add('W', r.Prec)
			}
			prevWord = !IsLit(r.Prec)
		}
		if r.HasAct || r.Action != "" {
			add('O', "{"+r.Action+"}")
		}
	}
	if len(s.Rules) > 0 && !o.NoSemicolon {
		add('O', ";")
	}
	if s.HasEpilogue || s.Epilogue != "" {
		add('W', "%%")
		a = append(a, Atom{Text: s.Epilogue, Gap: 'E'}) // epilogue follows %% directly
	}
	return a
}

func itoa(n int) string {
	if n == 0 {
		return "0"
	}
	neg := n < 0
	if neg {
		n = -n
	}
	var b []byte
	for n > 0 {
		b = append([]byte{byte('0' + n%10)}, b...)
		n /= 10
	}
	if neg {
		b = append([]byte{'-'}, b...)
	}
	return string(b)
}

// RenderAtoms joins the atoms; sep(i) is the separator for the gap before
// atom i (the canonical one when sep is nil).
func RenderAtoms(atoms []Atom, sep func(i int, gap byte, canon string) string) string {
	var b strings.Builder
	for i, at := range atoms {
		switch at.Gap {
		case 0, 'E':
		default:
			s := at.Canon
			if sep != nil {
				s = sep(i, at.Gap, at.Canon)
			}
			b.WriteString(s)
		}
		b.WriteString(at.Text)
	}
	return b.String()
}
