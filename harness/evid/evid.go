// Package evid holds the plumbing shared by all checks: the worker result
// format, evidence files, replay files and the known-findings list.
package evid

import (
	"crypto/sha256"
	"encoding/hex"
	"encoding/json"
	"fmt"
	"os"
	"path/filepath"
	"sort"
	"strings"
)

// Violation is one observed counterexample.
type Violation struct {
	Property string          `json:"property"`
	Key      string          `json:"key"`     // canonical identity (matched against known findings)
	Summary  string          `json:"summary"` // one line for humans
	Case     json.RawMessage `json:"case"`    // what to re-execute (check specific)
	Detail   interface{}     `json:"detail,omitempty"`
}

// WorkerOut is what one worker process hands back to the coordinator.
type WorkerOut struct {
	Counters   map[string]int64    `json:"counters"`
	Samples    []interface{}       `json:"samples"`
	Violations []Violation         `json:"violations"`
	NViolation int64               `json:"n_violation"`
	Caps       []string            `json:"caps"`
	Notes      []string            `json:"notes"`
	Sets       map[string][]string `json:"sets"` // small named string sets (unioned by the coordinator)
	Done       bool                `json:"done"`
	Next       int64               `json:"next"` // first case index not yet handled (when !Done)
}

func NewWorkerOut() *WorkerOut {
	return &WorkerOut{Counters: map[string]int64{}, Sets: map[string][]string{}}
}

func (w *WorkerOut) Merge(o *WorkerOut, maxSamples, maxViol int) {
	for k, v := range o.Counters {
		if strings.HasPrefix(k, "max_") {
			if v > w.Counters[k] {
				w.Counters[k] = v
			}
			continue
		}
		w.Counters[k] += v
	}
	for _, s := range o.Samples {
		if len(w.Samples) < maxSamples {
			w.Samples = append(w.Samples, s)
		}
	}
	for _, v := range o.Violations {
		if len(w.Violations) < maxViol {
			w.Violations = append(w.Violations, v)
		}
	}
	w.NViolation += o.NViolation
	w.Caps = appendUniq(w.Caps, o.Caps...)
	w.Notes = appendUniq(w.Notes, o.Notes...)
	for k, v := range o.Sets {
		w.Sets[k] = appendUniq(w.Sets[k], v...)
	}
}

func appendUniq(a []string, b ...string) []string {
	seen := map[string]bool{}
	for _, x := range a {
		seen[x] = true
	}
	for _, x := range b {
		if !seen[x] {
			seen[x] = true
			a = append(a, x)
		}
	}
	return a
}

// ---------------------------------------------------------------------------
// known findings

type Finding struct {
	Property string `json:"property"`
	Status   string `json:"status"` // "open" or "fixed"
	// Key is matched exactly against Violation.Key.
	Key    string `json:"key"`
	What   string `json:"what"`
	Commit string `json:"commit,omitempty"`
	Line   string `json:"line,omitempty"` // the textual record, e.g. "fixed: property=C05 <commit> <what failed>"
}

type Findings struct {
	Findings []Finding `json:"findings"`
}

func LoadFindings(path string) (*Findings, error) {
	f := &Findings{}
	b, err := os.ReadFile(path)
	if err != nil {
		if os.IsNotExist(err) {
			return f, nil
		}
		return nil, err
	}
	if err := json.Unmarshal(b, f); err != nil {
		return nil, err
	}
	return f, nil
}

// Open returns the open finding matching a violation, if any.
func (f *Findings) Open(v Violation) *Finding {
	for i := range f.Findings {
		k := &f.Findings[i]
		if k.Status == "open" && k.Property == v.Property && k.Key == v.Key {
			return k
		}
	}
	return nil
}

// ---------------------------------------------------------------------------
// replay files

func Hash(s string) string {
	h := sha256.Sum256([]byte(s))
	return hex.EncodeToString(h[:8])
}

type Replay struct {
	Property string          `json:"property"`
	Key      string          `json:"key"`
	Summary  string          `json:"summary"`
	Case     json.RawMessage `json:"case"`
	Detail   interface{}     `json:"detail,omitempty"`
}

func WriteReplay(root string, v Violation) (string, error) {
	dir := filepath.Join(root, "replays", v.Property)
	if err := os.MkdirAll(dir, 0o755); err != nil {
		return "", err
	}
	p := filepath.Join(dir, Hash(v.Key)+".json")
	b, _ := json.MarshalIndent(Replay{Property: v.Property, Key: v.Key, Summary: v.Summary, Case: v.Case, Detail: v.Detail}, "", " ")
	return p, os.WriteFile(p, append(b, '\n'), 0o644)
}

// ---------------------------------------------------------------------------
// evidence

type Evidence struct {
	PropertyID  string                 `json:"property_id"`
	Tier        string                 `json:"tier"`
	Seed        int64                  `json:"seed"`
	Level       string                 `json:"level"`
	Coverage    map[string]interface{} `json:"coverage"`
	Assumptions []string               `json:"assumptions"`
	WallS       float64                `json:"wall_s"`
	Violations  int64                  `json:"violations"`
}

func WriteEvidence(root string, e *Evidence) error {
	dir := filepath.Join(root, "evidence")
	os.MkdirAll(dir, 0o755)
	b, err := json.MarshalIndent(e, "", " ")
	if err != nil {
		return err
	}
	return os.WriteFile(filepath.Join(dir, e.PropertyID+".json"), append(b, '\n'), 0o644)
}

// SortedKeys helps printing counters deterministically.
func SortedKeys(m map[string]int64) []string {
	var ks []string
	for k := range m {
		ks = append(ks, k)
	}
	sort.Strings(ks)
	return ks
}

func Must(err error) {
	if err != nil {
		fmt.Fprintln(os.Stderr, "verif: internal error:", err)
		os.Exit(3)
	}
}
