package evid

import (
	"context"
	"fmt"
	"os/exec"
	"strings"
	"syscall"
)

// Guarded builds a command that cannot outlive the harness:
//   - it runs in its own process group and the whole group is killed when ctx
//     ends (exec.CommandContext alone would only kill the direct child),
//   - the kernel kills it when its parent dies (Pdeathsig),
//   - it runs under `ulimit -t cpuSeconds` (RLIMIT_CPU), so that even an
//     orphaned spinning process ends by itself.
//
// The program is exec'ed by the shell, so the PID is the program's own.
func Guarded(ctx context.Context, cpuSeconds int, dir string, env []string, prog string, args ...string) *exec.Cmd {
	q := func(s string) string { return "'" + strings.ReplaceAll(s, "'", `'\''`) + "'" }
	line := fmt.Sprintf("ulimit -t %d; exec %s", cpuSeconds, q(prog))
	for _, a := range args {
		line += " " + q(a)
	}
	cmd := exec.CommandContext(ctx, "/bin/bash", "-c", line)
	cmd.Dir = dir
	if env != nil {
		cmd.Env = env
	}
	cmd.SysProcAttr = &syscall.SysProcAttr{Setpgid: true, Pdeathsig: syscall.SIGKILL}
	cmd.Cancel = func() error {
		if cmd.Process != nil {
			return syscall.Kill(-cmd.Process.Pid, syscall.SIGKILL)
		}
		return nil
	}
	return cmd
}
