// Package gen generates parsers with the real yaccgo code generator for a
// batch of grammars, links all Go ones into one driver binary, runs token
// strings through them and returns what was observed.
package gen

import (
	"fmt"
	"regexp"
	"sort"
	"strings"

	"verifharness/gram"
)

// Variant names.
const (
	Go   = "go"
	GoU  = "go-u"
	GoO  = "go-o"
	GoOU = "go-o-u"
	TS   = "ts"
	GoG  = "go-g" // default Go parser generated together with the automaton graph (-g)
)

var GoVariants = []string{Go, GoU, GoO, GoOU}
var AllVariants = []string{Go, GoU, GoO, GoOU, TS}

func IsObject(v string) bool { return v == GoO || v == GoOU }
func IsUnpack(v string) bool { return v == GoU || v == GoOU }

// TokChars assigns one input character to every terminal of the spec:
// literals are their own character, TA..TD are a..d, other named tokens get
// the next free lower-case letters. '?' is never assigned (it is the
// character the harness lexer answers with an unknown token code).
func TokChars(s *gram.Spec) map[string]byte {
	m := map[string]byte{}
	used := map[byte]bool{'?': true}
	terms := s.Terminals()
	for _, t := range terms {
		if gram.IsLit(t) && gram.LitRune(t) < 128 {
			m[t] = gram.LitChar(t)
			used[m[t]] = true
		}
	}
	for i, n := range gram.TNames {
		for _, t := range terms {
			if t == n {
				m[t] = gram.TChars[i]
				used[m[t]] = true
			}
		}
	}
	next := byte('e')
	for _, t := range terms {
		if _, ok := m[t]; ok {
			continue
		}
		for used[next] {
			next++
		}
		m[t] = next
		used[next] = true
	}
	return m
}

// Tags assigns a union field ("n", "s" or "") to every symbol.
type Tags map[string]string

// AllS tags every symbol of the spec with the string field.
func AllS(s *gram.Spec) Tags {
	t := Tags{}
	for _, x := range s.Terminals() {
		t[x] = "s"
	}
	for _, x := range s.Nonterminals() {
		t[x] = "s"
	}
	return t
}

// ActionShape selects which $i an action mentions.
type ActionShape int

const (
	UseAll    ActionShape = iota // every tagged $i
	UseFirst                     // only $1
	UseLast                      // only $n
	NoAction                     // no action at all (only the recorder)
	Mixed                        // rules with an odd number assign $$ from all $i, even ones only record
	PlainCopy                    // `$$ = $1` (with a field conversion where the tags differ), no recorder: many rules share one action text
	Bare                         // rules with an even number and a non-empty right-hand side have NO action block at all, the others as UseAll
	Padded                       // as UseAll, every reference but $8 and $9 written with a leading zero: $01 ... $07, $010, $011 (the number is decimal)
	InString                     // as UseAll (all-string tags), and the text `[$1]` inside a string literal is appended to the value of every non-empty rule: the generators substitute there as well, all of them alike
)

// IsBare reports whether rule r gets no action block under the shape.
func IsBare(shape ActionShape, r int, rule gram.Rule) bool {
	return shape == Bare && r%2 == 0 && len(rule.R) > 0
}

// ActionFor builds the harness-chosen action of rule number r (1-based).
// The text is valid Go and valid TypeScript.
func ActionFor(r int, rule gram.Rule, tags Tags, shape ActionShape) string {
	if shape == NoAction || (shape == Mixed && r%2 == 0) {
		return fmt.Sprintf(" rec(%d) ", r)
	}
	if IsBare(shape, r, rule) {
		return ""
	}
	lt := tags[rule.L]
	if shape == PlainCopy {
		// tick() burns fuel, so that reduction loops of cyclic grammars end
		if len(rule.R) == 0 || lt == "" || tags[rule.R[0]] == "" {
			return " tick() "
		}
		switch {
		case lt == tags[rule.R[0]]:
			return " $$ = $1; tick() "
		case lt == "s":
			return " $$ = sn($1); tick() "
		}
		return " $$ = ns($1); tick() "
	}
	var args []string
	for i, x := range rule.R {
		if shape == UseFirst && i != 0 {
			continue
		}
		if shape == UseLast && i != len(rule.R)-1 {
			continue
		}
		xt := tags[x]
		ref := fmt.Sprintf("$%d", i+1)
		if shape == Padded && i+1 != 8 && i+1 != 9 {
			ref = fmt.Sprintf("$0%d", i+1)
		}
		switch {
		case xt == "":
			continue
		case lt == "s" && xt == "n":
			ref = "sn(" + ref + ")"
		case lt == "n" && xt == "s":
			ref = "ns(" + ref + ")"
		case lt == "" && xt == "n":
			ref = "sn(" + ref + ")"
		}
		args = append(args, ref)
	}
	all := append([]string{fmt.Sprint(r)}, args...)
	switch lt {
	case "s":
		if shape == InString && len(rule.R) > 0 && tags[rule.R[0]] == "s" {
			return fmt.Sprintf(" $$ = hs(%s) + \"[$1]\"; rec(%d) ", strings.Join(all, ", "), r)
		}
		return fmt.Sprintf(" $$ = hs(%s); rec(%d) ", strings.Join(all, ", "), r)
	case "n":
		return fmt.Sprintf(" $$ = hn(%s); rec(%d) ", strings.Join(all, ", "), r)
	}
	// untagged left side: still evaluate the arguments (they must address
	// valid slots) but assign nothing
	return fmt.Sprintf(" use(hs(%s)); rec(%d) ", strings.Join(all, ", "), r)
}

// Decorated is a spec ready for generation plus what the harness needs to
// talk to the generated parser.
type Decorated struct {
	Spec  *gram.Spec
	Chars map[string]byte
	Tags  Tags
	Shape ActionShape
	// Nested: every action ends with nest(), which (Go only) parses the same input once more from
	// inside the action - on the global parser between PushContex()/PopContex(), on a fresh context
	// with -o - with the recorder switched to a throw-away run. The outer parse must not notice.
	Nested bool
	// Lazy: the lexer treats the value cell it is handed like yacc's yylval: it does not clear it, and
	// the number it stores for a token is the number it finds in the cell plus the token's own (the
	// cell is the only memory a lexer of an -o parser has). One cell per Parser() call in every driver.
	Lazy bool
	// FieldN: another name for the int member of the %union (Go variants only; "" = n). Members of the
	// union live next to the fields of the generated stack entry, so an everyday name must stay usable.
	FieldN string
	// InfFirst (TypeScript only): the lexer gives the first token the number Infinity, a value that does not
	// survive a detour through text (JSON). All-int tags and the UseAll shape make it reach the result, which
	// then is NaN; the runner reports a non-finite result as 0.
	InfFirst bool
}

// Decorate returns a copy of s with union, tags, types and harness actions;
// prologue and epilogue are added per variant by Source.
func Decorate(s *gram.Spec, tags Tags, shape ActionShape) *Decorated {
	return DecorateOpt(s, tags, shape, false)
}

// DecorateOpt: with renumber, every named token is additionally re-declared
// WITHOUT tag and with an explicit number on a later line (`%token NAME 300`),
// after the tagged lines of all other tokens - the idiom of the repository's
// examples (`%token <val> NUM` ... `%token NUM 100`).
func DecorateOpt(s *gram.Spec, tags Tags, shape ActionShape, renumber bool) *Decorated {
	if tags == nil {
		tags = AllS(s)
	}
	d := &Decorated{Chars: TokChars(s), Tags: tags, Shape: shape}
	n := &gram.Spec{Start: s.Start, Prec: s.Prec, HasUnion: true}
	declared := map[string]bool{}
	for _, t := range s.Tokens {
		t.Tag = tags[t.Name]
		n.Tokens = append(n.Tokens, t)
		declared[t.Name] = true
	}
	for _, t := range s.Terminals() {
		if !declared[t] {
			n.Tokens = append(n.Tokens, gram.TokDecl{Name: t, Tag: tags[t]})
		}
	}
	byTag := map[string][]string{}
	for _, nt := range s.Nonterminals() {
		if tags[nt] != "" {
			byTag[tags[nt]] = append(byTag[tags[nt]], nt)
		}
	}
	var ts []string
	for t := range byTag {
		ts = append(ts, t)
	}
	sort.Strings(ts)
	for _, t := range ts {
		n.Types = append(n.Types, gram.TypeDecl{Tag: t, Names: byTag[t]})
	}
	if renumber {
		k := 0
		for _, t := range n.Tokens {
			if !gram.IsLit(t.Name) && t.Num == 0 {
				n.LateTokens = append(n.LateTokens, gram.TokDecl{Name: t.Name, Num: 300 + k})
				k++
			}
		}
	}
	for i, r := range s.Rules {
		r.Action = ActionFor(i+1, r, tags, shape)
		r.HasAct = r.Action != ""
		n.Rules = append(n.Rules, r)
	}
	d.Spec = n
	return d
}

// Source renders the .y text for one variant and package name.
func (d *Decorated) Source(variant, pkg string) string {
	s := *d.Spec
	if d.Nested {
		s.Rules = append([]gram.Rule(nil), s.Rules...)
		for i := range s.Rules {
			if s.Rules[i].Action != "" {
				s.Rules[i].Action += "; nest() "
			}
		}
	}
	// every harness action stands between two block comments (a generator that loses the text between
	// the first and the last comment of an action loses the action)
	s.Rules = append([]gram.Rule(nil), s.Rules...)
	for i := range s.Rules {
		if s.Rules[i].Action != "" {
			head := " /* action of rule " + fmt.Sprint(i+1) + " */"
			if d.Shape == PlainCopy {
				head = " /* action */" // these actions are meant to be the same text for many rules
			}
			s.Rules[i].Action = head + s.Rules[i].Action + "/* end of action */ "
		}
	}
	if variant == TS {
		// fields are initialised so that an unassigned $$ reads as 0 / "" as in Go
		s.Union = "\n n :number = 0;\n s :string = \"\";\n"
		s.Prologue = tsPrologue
		s.Epilogue = d.tsEpilogue()
	} else {
		s.Union = "\n\tn int\n\ts string\n"
		s.Prologue = "package " + pkg + "\n\nimport \"fmt\"\nimport rt \"gendrv/rt\"\n\nvar _ = fmt.Sprint\n"
		s.Epilogue = d.goEpilogue(pkg, IsObject(variant))
	}
	s.HasEpilogue = true
	text := s.Render()
	if d.FieldN != "" && variant != TS {
		text = strings.ReplaceAll(text, "<n>", "<"+d.FieldN+">")
		text = strings.ReplaceAll(text, "\n\tn int\n", "\n\t"+d.FieldN+" int\n")
		text = fieldRef.ReplaceAllString(text, "${1}."+d.FieldN)
	}
	return text
}

// fieldRef: the places where the harness epilogue reads or writes the int member.
var fieldRef = regexp.MustCompile(`\b(hxVal|hxInner|hxBefore|v)\.n\b`)

func (d *Decorated) sortedToks() []string {
	var ts []string
	for t := range d.Chars {
		ts = append(ts, t)
	}
	sort.Strings(ts)
	return ts
}

func (d *Decorated) goEpilogue(pkg string, object bool) string {
	var b strings.Builder
	b.WriteString("\n// ---- harness-owned epilogue ---- (this comment contains the section mark %% on purpose)\n")
	// identifiers of the epilogue carry the prefix hx: a token of the grammar may be called c, p, m, ch, pos ...
	b.WriteString("func tokCode(hxCh byte, hxPos int) int {\n\tswitch hxCh {\n\tcase 1:\n\t\tpanic(\"harness: the lexer gives up\") // user code that fails in the middle of a parse\n")
	var codes []string
	for _, t := range d.sortedToks() {
		code := t
		codes = append(codes, code)
		fmt.Fprintf(&b, "\tcase %q:\n\t\treturn %s\n", rune(d.Chars[t]), code)
	}
	// not a token: the example lexers of the repository answer 0; which undeclared code the
	// harness lexer answers depends on the position (0, the two integers after the largest
	// token code, a negative one other than -1)
	b.WriteString("\t}\n\thxMax := 0\n\tfor _, hxC := range []int{" + strings.Join(codes, ", ") + "} {\n\t\tif hxC > hxMax {\n\t\t\thxMax = hxC\n\t\t}\n\t}\n")
	b.WriteString("\tswitch hxPos % 4 {\n\tcase 1:\n\t\treturn hxMax + 1\n\tcase 2:\n\t\treturn -7\n\tcase 3:\n\t\treturn hxMax + 2\n\t}\n\treturn 0\n}\n")
	if d.Lazy {
		b.WriteString(`
func GetToken(hxInput string, hxVal *ValType, hxPosPtr *int) int {
	rt.Fetch()
	if *hxPosPtr >= len(hxInput) {
		return -1
	}
	hxCh := hxInput[*hxPosPtr]
	hxPos := *hxPosPtr
	*hxPosPtr++
	hxVal.n = (hxVal.n + rt.TokN(hxCh, hxPos)) % rt.Mod
	hxVal.s = rt.TokS(hxCh, hxPos)
	return tokCode(hxCh, hxPos)
}
`)
	} else {
		b.WriteString(`
func GetToken(hxInput string, hxVal *ValType, hxPosPtr *int) int {
	rt.Fetch()
	*hxVal = ValType{}
	if *hxPosPtr >= len(hxInput) {
		return -1
	}
	hxCh := hxInput[*hxPosPtr]
	hxPos := *hxPosPtr
	*hxPosPtr++
	hxVal.n = rt.TokN(hxCh, hxPos)
	hxVal.s = rt.TokS(hxCh, hxPos)
	return tokCode(hxCh, hxPos)
}
`)
	}
	b.WriteString(`
func hs(r int, xs ...string) string { return rt.HS(r, xs...) }
func hn(r int, xs ...int) int       { return rt.HN(r, xs...) }
func sn(x int) string               { return rt.SN(x) }
func ns(s string) int               { return rt.NS(s) }
func use(s string)                  {}
func rec(r int)                     { rt.Rec(r) }
func tick()                         { rt.Tick() }
func Dump(nStates, nSyms int) [][]int {
	out := make([][]int, nStates)
	for s := 0; s < nStates; s++ {
		out[s] = make([]int, nSyms)
		for a := 0; a < nSyms; a++ {
			out[s][a] = (&StateSym{Yystate: s}).Action(a)
		}
	}
	return out
}
func Translate(lo, hi int) []int {
	var out []int
	for c := lo; c <= hi; c++ {
		out = append(out, translate(c))
	}
	return out
}
`)
	if !object {
		b.WriteString(`
func nest() {
	outer := rt.Cur
	if outer == nil || outer.Inner {
		return
	}
	inner := rt.Begin(100000)
	inner.Inner = true
	if IsTrace {
		fmt.Println("<nested-parse>") // the trace of the inner parse is cut out by the reader of the outer one
	}
	PushContex()
	var hxInner *ValType
	func() {
		defer func() { recover() }()
		ParserInit()
		hxInner = Parser(outer.Input[len(outer.Input)/2:] + outer.Input[:len(outer.Input)/2]) // the two halves swapped: another token sequence
	}()
	var hxBefore ValType
	if hxInner != nil {
		hxBefore = *hxInner
	}
	PopContex()
	// the value the nested parse returned belongs to the caller, also after the outer context is back
	if hxInner != nil && (hxInner.n != hxBefore.n || hxInner.s != hxBefore.s) && outer.NestedChanged == "" {
		outer.NestedChanged = fmt.Sprintf("a nested Parser() returned %d/%q; after PopContex() the same pointer reads %d/%q", hxBefore.n, hxBefore.s, hxInner.n, hxInner.s)
	}
	if IsTrace {
		fmt.Println("</nested-parse>")
	}
	rt.Cur = outer
}
func Run(input string, trace bool, r *rt.Run, init bool) (res rt.Result) {
	defer func() {
		if p := recover(); p != nil {
			res = rt.Finish(r, p, false, 0, "")
		}
	}()
	IsTrace = trace
	if init {
		ParserInit()
	}
	v := Parser(input)
	if v == nil {
		return rt.Finish(r, nil, true, 0, "")
	}
	if rt.Hold != nil {
		rt.Hold(func() (int, string) { return v.n, v.s })
	}
	return rt.Finish(r, nil, false, v.n, v.s)
}
func init() {
	rt.Register("` + pkg + `", rt.Parser{Run: Run, Dump: Dump, Translate: Translate})
}
`)
	} else {
		b.WriteString(`
func nest() {
	outer := rt.Cur
	if outer == nil || outer.Inner {
		return
	}
	inner := rt.Begin(100000)
	inner.Inner = true
	if IsTrace {
		fmt.Println("<nested-parse>")
	}
	func() {
		defer func() { recover() }()
		MakeParserContext().Parser(outer.Input[len(outer.Input)/2:] + outer.Input[:len(outer.Input)/2])
	}()
	if IsTrace {
		fmt.Println("</nested-parse>")
	}
	rt.Cur = outer
}
func Run(input string, trace bool, r *rt.Run, init bool) (res rt.Result) {
	return RunCtx(MakeParserContext(), input, trace, r, false)
}
func NewCtx() interface{} { return MakeParserContext() }
func RunCtx(ctx interface{}, input string, trace bool, r *rt.Run, reinit bool) (res rt.Result) {
	defer func() {
		if p := recover(); p != nil {
			res = rt.Finish(r, p, false, 0, "")
		}
	}()
	if IsTrace != trace { // written only when it changes: concurrent parses all pass the same value
		IsTrace = trace
	}
	c := ctx.(*Context)
	if reinit {
		c.ParserInit()
	}
	v := c.Parser(input)
	if v == nil {
		return rt.Finish(r, nil, true, 0, "")
	}
	if rt.Hold != nil {
		rt.Hold(func() (int, string) { return v.n, v.s })
	}
	return rt.Finish(r, nil, false, v.n, v.s)
}
func init() {
	rt.Register("` + pkg + `", rt.Parser{Run: Run, Dump: Dump, Translate: Translate, NewCtx: NewCtx, RunCtx: RunCtx, Object: true})
}
`)
	}
	return b.String()
}

const tsPrologue = `"use strict";
`

func (d *Decorated) tsEpilogue() string {
	var b strings.Builder
	fmt.Fprintf(&b, "\nconst hxInfFirst = %v;\n", d.InfFirst)
	b.WriteString("\n// ---- harness-owned epilogue ---- (this comment contains the section mark %% on purpose)\n")
	b.WriteString("function tokCode(hxCh :number, hxPos :number) :number {\n\tswitch (hxCh) {\n\tcase 1: throw new Error(\"harness: the lexer gives up\");\n")
	var codes []string
	for _, t := range d.sortedToks() {
		code := t
		if gram.IsLit(t) {
			code = fmt.Sprint(int(gram.LitRune(t)))
		}
		codes = append(codes, code)
		fmt.Fprintf(&b, "\tcase %d: return %s;\n", d.Chars[t], code)
	}
	b.WriteString("\t}\n\tlet hxMax = 0;\n\tfor (const hxC of [" + strings.Join(codes, ", ") + "]) {\n\t\tif (hxC > hxMax) { hxMax = hxC; }\n\t}\n")
	b.WriteString("\tswitch (hxPos % 4) {\n\tcase 1: return hxMax + 1;\n\tcase 2: return -7;\n\tcase 3: return hxMax + 2;\n\t}\n\treturn 0; // not a token\n}\n")
	if d.Lazy {
		b.WriteString(`
function GetToken(hxInput :string, model:{ValType :ValType, pos :number}) :number {
	RT.fetch();
	if (model.pos >= hxInput.length) {
		return -1;
	}
	let hxCh = hxInput.charCodeAt(model.pos);
	let hxPos = model.pos;
	model.pos++;
	// the literal translation of the Go lexer: one cell, allocated once, updated in place
	if (!model.ValType) {
		model.ValType = new ValType();
		model.ValType.n = 0;
	}
	model.ValType.n = (model.ValType.n + RT.tokN(hxCh, hxPos)) % 1000003;
	model.ValType.s = RT.tokS(hxCh, hxPos);
	return tokCode(hxCh, hxPos);
}
`)
	} else {
		b.WriteString(`
function GetToken(hxInput :string, model:{ValType :ValType, pos :number}) :number {
	RT.fetch();
	model.ValType = new ValType();
	if (model.pos >= hxInput.length) {
		return -1;
	}
	let hxCh = hxInput.charCodeAt(model.pos);
	let hxPos = model.pos;
	model.pos++;
	model.ValType.n = RT.tokN(hxCh, hxPos);
	if (hxInfFirst && hxPos == 0) { model.ValType.n = Infinity; }
	model.ValType.s = RT.tokS(hxCh, hxPos);
	return tokCode(hxCh, hxPos);
}
`)
	}
	b.WriteString(`
function hs(r :number, ...xs :string[]) :string { return RT.hs(r, xs); }
function hn(r :number, ...xs :number[]) :number { return RT.hn(r, xs); }
function sn(x :number) :string { return RT.sn(x); }
function ns(s :string) :number { return RT.ns(s); }
function use(s :string) {}
function rec(r :number) { RT.rec(r); }
function tick() { RT.tick(); }
function nest() {}
RT.exportParser({
	parse: function (input :string) { return Parser(input); },
	init: function () { initialize(); },
	action: function (s :number, a :number) { return new StateSym(s, 0).Action(a); },
	translate: function (c :number) { return translate(c); },
});
`)
	return b.String()
}
