// Package rt is the runtime shared by all generated parsers inside a driver
// binary: the harness-owned lexer helpers, the recorder called from semantic
// actions, the value combinators used by the harness-chosen actions, and the
// cooperative scheduler hook. The same source is compiled into the harness
// (as verifharness/gen/rt) so that the reference attribute evaluation uses
// literally the same combinators.
package rt

import (
	"fmt"
	"runtime"
	"strconv"
	"strings"
)

// ---- value combinators (mirrored in tsrun/runner.js) ----------------------

const Mod = 1000003

func TokN(ch byte, pos int) int { return (int(ch)*31 + pos + 1) % Mod }
func TokS(ch byte, pos int) string {
	return string([]byte{ch}) + strconv.Itoa(pos)
}

func HS(r int, xs ...string) string {
	return "(" + strconv.Itoa(r) + ":" + strings.Join(xs, ",") + ")"
}

func HN(r int, xs ...int) int {
	h := (r * 1009) % Mod
	for i, x := range xs {
		h = (h*131 + (i+1)*(x%Mod)*31 + 7) % Mod
	}
	return h
}

func SN(x int) string { return "#" + strconv.Itoa(x) }

func NS(s string) int {
	h := 0
	for i := 0; i < len(s); i++ {
		h = (h*33 + int(s[i])*(i%7+1)) % Mod
	}
	return h
}

// ---- observation of one parse ----------------------------------------------

type Red struct {
	Rule    int `json:"r"`
	Fetches int `json:"f"` // lexer calls made when the action ran
}

type Result struct {
	Class   string `json:"class"` // accept | syntax-error | crash | loop | nil
	Panic   string `json:"panic,omitempty"`
	Fetches int    `json:"fetches"`
	Reds    []Red  `json:"reds,omitempty"`
	N       int    `json:"n"`
	S       string `json:"s"`
	Trace   string `json:"trace,omitempty"`
	// Later: what the value returned by this parse reads as after the LATER parses of the same
	// history, when that differs from what it was on return (the caller kept the pointer)
	Later string `json:"later,omitempty"`
}

// Hold, when set, receives a reader of the value that an accepting parse
// returned (the harness epilogue calls it with a closure over the returned
// pointer), so that the driver can read the value again later.
var Hold func(read func() (int, string))

type Run struct {
	Reds    []Red
	Fetches int
	Fuel    int
	// scheduler: called at every lexer fetch and every action when set
	Yield func(kind byte)
	// Input is the text being parsed (set by the driver); Inner marks the run of a nested parse
	// started from an action of the outer parse (see nest() in the harness epilogue)
	Input string
	Inner bool
	// NestedChanged: set by nest() when the value a nested parse returned reads differently after the
	// caller went back to the outer parse (PopContex) - the caller keeps that pointer
	NestedChanged string
}

type FuelPanic struct{}

// Cur is the parse being executed. Under the cooperative scheduler exactly
// one parse runs at a time and the scheduler switches Cur at each hand-off.
// In free-running (race detector) mode Cur stays nil and nothing is recorded.
var Cur *Run

func Begin(fuel int) *Run {
	r := &Run{Fuel: fuel}
	Cur = r
	return r
}

// RaceYield: in the free-running (race detector) mode every lexer call yields the processor.
var RaceYield bool

func Fetch() {
	r := Cur
	if r == nil {
		if RaceYield {
			runtime.Gosched()
		}
		return
	}
	r.Fetches++
	r.Fuel--
	if r.Fuel < 0 {
		panic(FuelPanic{})
	}
	if r.Yield != nil {
		r.Yield('f')
	}
}

func Rec(rule int) {
	r := Cur
	if r == nil {
		return
	}
	r.Reds = append(r.Reds, Red{Rule: rule, Fetches: r.Fetches})
	r.Fuel--
	if r.Fuel < 0 {
		panic(FuelPanic{})
	}
	if r.Yield != nil {
		r.Yield('a')
	}
}

// Tick only burns fuel (used by actions that must not carry a rule number).
func Tick() {
	r := Cur
	if r == nil {
		return
	}
	r.Fuel--
	if r.Fuel < 0 {
		panic(FuelPanic{})
	}
}

// Finish classifies the end of a parse. p is the recovered panic value (nil
// if Parser returned), isNil says Parser returned a nil pointer.
func Finish(r *Run, p interface{}, isNil bool, n int, s string) Result {
	res := Result{Fetches: r.Fetches, Reds: r.Reds}
	if r.NestedChanged != "" {
		res.Class, res.Panic = "nested-result-changed", r.NestedChanged
		return res
	}
	switch {
	case p == nil && !isNil:
		res.Class, res.N, res.S = "accept", n, s
	case p == nil:
		res.Class = "nil"
	default:
		if _, ok := p.(FuelPanic); ok {
			res.Class = "loop"
			break
		}
		txt := fmt.Sprint(p)
		res.Panic = txt
		if _, isErr := p.(error); !isErr && strings.HasPrefix(txt, "Grammar error") {
			res.Class = "syntax-error"
		} else {
			res.Class = "crash"
		}
	}
	return res
}

// ---- registry ---------------------------------------------------------------

type Parser struct {
	// Run parses input; init says whether ParserInit() is called first
	// (global parsers; -o parsers always use a fresh context here)
	Run       func(input string, trace bool, r *Run, init bool) Result
	Dump      func(nStates, nSyms int) [][]int
	Translate func(lo, hi int) []int
	// NewCtx / RunCtx exist for -o parsers: separate contexts
	NewCtx func() interface{}
	RunCtx func(ctx interface{}, input string, trace bool, r *Run, reinit bool) Result
	Object bool
}

var Registry = map[string]Parser{}

func Register(name string, p Parser) { Registry[name] = p }
