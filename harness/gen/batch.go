package gen

import (
	"bufio"
	"context"
	_ "embed"
	"encoding/json"
	"fmt"
	"os"
	"os/exec"
	"path/filepath"
	"regexp"
	"sort"
	"strings"
	"time"

	"verifharness/evid"
	"verifharness/gen/rt"
	"verifharness/ygo"
)

//go:embed rt/rt.go
var rtSource string

//go:embed sched_drv.go.txt
var schedDriverSource string

// Item is one generated parser.
type Item struct {
	Pkg      string // package / module-unique name
	Variant  string
	D        *Decorated
	Text     string // the .y text given to yaccgo
	File     string // generated file
	GenDiag  string // non-empty: yaccgo refused to generate
	Stdout   string
	BuildErr string // non-empty: the Go compiler rejected the generated file
}

type Batch struct {
	Dir   string
	Items []*Item
	byPkg map[string]*Item
	built bool
}

func NewBatch(scratch, name string) (*Batch, error) {
	dir := filepath.Join(scratch, "gendrv-"+name)
	if err := os.MkdirAll(filepath.Join(dir, "rt"), 0o755); err != nil {
		return nil, err
	}
	if err := os.WriteFile(filepath.Join(dir, "go.mod"), []byte("module gendrv\n\ngo 1.18\n"), 0o644); err != nil {
		return nil, err
	}
	if err := os.WriteFile(filepath.Join(dir, "rt", "rt.go"), []byte(rtSource), 0o644); err != nil {
		return nil, err
	}
	return &Batch{Dir: dir, byPkg: map[string]*Item{}}, nil
}

func (b *Batch) Remove() { os.RemoveAll(b.Dir) }

// Add generates one parser with the real yaccgo generator (in-process,
// canonical map order) and returns the item.
func (b *Batch) Add(pkg, variant string, d *Decorated) *Item {
	it := &Item{Pkg: pkg, Variant: variant, D: d}
	it.Text = d.Source(variant, pkg)
	dir := filepath.Join(b.Dir, pkg)
	os.MkdirAll(dir, 0o755)
	lang := "go"
	it.File = filepath.Join(dir, "parser.go")
	if variant == TS {
		lang = "typescript"
		it.File = filepath.Join(dir, "parser.ts")
	}
	opt := ygo.Options{Fuel: 50_000_000, Unpack: IsUnpack(variant), Object: IsObject(variant)}
	if variant == GoG {
		opt.Dot = filepath.Join(dir, "graph.png")
	}
	res := ygo.Generate(lang, it.Text, it.File, opt)
	it.Stdout = res.Stdout
	if res.Err != nil || res.Panic != "" || res.Fuel {
		it.GenDiag = res.Diag()
		os.RemoveAll(dir)
	}
	os.Remove(filepath.Join(dir, "graph.png"))
	b.Items = append(b.Items, it)
	b.byPkg[pkg] = it
	return it
}

// AddText generates a parser from a ready-made .y text (no harness actions).
var staleOutput = []byte(strings.Repeat("}}}} stale content of an earlier generation {{{{ ) ( ] [\n", 900))

func (b *Batch) AddText(pkg, variant, text string) *Item {
	it := &Item{Pkg: pkg, Variant: variant, Text: text}
	dir := filepath.Join(b.Dir, pkg)
	os.MkdirAll(dir, 0o755)
	lang := "go"
	it.File = filepath.Join(dir, "parser.go")
	if variant == TS {
		lang = "typescript"
		it.File = filepath.Join(dir, "parser.ts")
	}
	// the output path is never fresh: a file from "an earlier generation" is already there, longer than
	// most outputs and valid in neither target language (a generator that does not truncate shows)
	os.WriteFile(it.File, staleOutput, 0o644)
	res := ygo.Generate(lang, text, it.File, ygo.Options{Fuel: 50_000_000, Unpack: IsUnpack(variant), Object: IsObject(variant)})
	it.Stdout = res.Stdout
	if res.Err != nil || res.Panic != "" || res.Fuel {
		it.GenDiag = res.Diag()
		os.RemoveAll(dir)
	}
	b.Items = append(b.Items, it)
	b.byPkg[pkg] = it
	return it
}

// BuildAll compiles every generated Go package (go build ./...), recording
// compiler errors per package. No driver is linked.
func (b *Batch) BuildAll() error {
	os.Remove(filepath.Join(b.Dir, "main.go"))
	os.Remove(filepath.Join(b.Dir, "sched.go"))
	cmd := exec.Command("go", "build", "-gcflags=-e", "./...")
	cmd.Dir = b.Dir
	cmd.Env = b.buildEnv("GOMAXPROCS=4")
	out, err := cmd.CombinedOutput()
	if err == nil {
		return nil
	}
	ms := buildErrRe.FindAllStringSubmatch(string(out), -1)
	if len(ms) == 0 {
		return fmt.Errorf("go build failed:\n%s", tail(string(out), 3000))
	}
	for _, m := range ms {
		it := b.byPkg[m[1]]
		if it == nil {
			continue
		}
		msg := fmt.Sprintf("parser.go:%s:%s: %s", m[2], m[3], m[4])
		if it.BuildErr == "" {
			it.BuildErr = msg
		} else if len(it.BuildErr) < 500 && !strings.Contains(it.BuildErr, m[4]) {
			it.BuildErr += "; " + msg
		}
	}
	return nil
}

func (b *Batch) Item(pkg string) *Item { return b.byPkg[pkg] }

var buildErrRe = regexp.MustCompile(`(?m)^(?:\./)?([A-Za-z0-9_]+)/parser\.go:(\d+):(\d+): (.*)$`)

var buildCacheDir string

// buildEnv returns the environment for `go build` of generated parsers.
// Every generated package is unique, so caching it in the user's Go build
// cache would grow that cache without bound (it reached 136 GB in one
// afternoon). The builds use a scratch cache inside the run's scratch
// directory instead, seeded with hard links to a small cache that holds the
// standard library (built by setup.sh); it disappears with the scratch directory.
func (b *Batch) buildEnv(extra ...string) []string {
	if buildCacheDir == "" {
		scratch := filepath.Dir(b.Dir)
		dir := filepath.Join(scratch, fmt.Sprintf("gocache-%d", os.Getpid()))
		seed := os.Getenv("VERIF_SEEDCACHE")
		ok := false
		if seed != "" {
			if _, err := os.Stat(seed); err == nil {
				if exec.Command("cp", "-al", seed, dir).Run() == nil {
					ok = true
				} else {
					os.RemoveAll(dir)
					ok = exec.Command("cp", "-r", seed, dir).Run() == nil
				}
			}
		}
		if !ok {
			os.MkdirAll(dir, 0o755)
		}
		buildCacheDir = dir
	}
	env := append(os.Environ(), "GOFLAGS=-mod=mod", "GOCACHE="+buildCacheDir)
	return append(env, extra...)
}

// BuildGo links every generated Go parser into one driver binary. Packages
// the compiler rejects are recorded (Item.BuildErr), removed, and the build
// is repeated without them.
func (b *Batch) BuildGo() error {
	for attempt := 0; attempt < 6; attempt++ {
		var imports []string
		for _, it := range b.Items {
			if it.Variant != TS && it.GenDiag == "" && it.BuildErr == "" {
				imports = append(imports, fmt.Sprintf("\t_ \"gendrv/%s\"", it.Pkg))
			}
		}
		sort.Strings(imports)
		main := fmt.Sprintf(driverMain, strings.Join(imports, "\n"))
		if err := os.WriteFile(filepath.Join(b.Dir, "main.go"), []byte(main), 0o644); err != nil {
			return err
		}
		if err := os.WriteFile(filepath.Join(b.Dir, "sched.go"), []byte(schedDriverSource), 0o644); err != nil {
			return err
		}
		cmd := exec.Command("go", "build", "-gcflags=-e", "-o", "drv", ".")
		cmd.Dir = b.Dir
		cmd.Env = b.buildEnv("GOMAXPROCS=4")
		out, err := cmd.CombinedOutput()
		if err == nil {
			b.built = true
			return nil
		}
		ms := buildErrRe.FindAllStringSubmatch(string(out), -1)
		if len(ms) == 0 {
			return fmt.Errorf("go build of the driver failed:\n%s", tail(string(out), 3000))
		}
		progress := false
		for _, m := range ms {
			it := b.byPkg[m[1]]
			if it != nil && it.BuildErr == "" {
				it.BuildErr = fmt.Sprintf("parser.go:%s:%s: %s", m[2], m[3], m[4])
				progress = true
			} else if it != nil && !strings.Contains(it.BuildErr, m[4]) && len(it.BuildErr) < 600 {
				it.BuildErr += "; " + fmt.Sprintf("%s:%s: %s", m[2], m[3], m[4])
			}
		}
		if !progress {
			return fmt.Errorf("go build of the driver failed:\n%s", tail(string(out), 3000))
		}
	}
	return fmt.Errorf("go build of the driver keeps failing")
}

func tail(s string, n int) string {
	if len(s) > n {
		return s[len(s)-n:]
	}
	return s
}

// Job asks the driver to run inputs on one parser.
type Job struct {
	Pkg         string     `json:"pkg"`
	Inputs      []string   `json:"inputs"`
	Trace       bool       `json:"trace"`
	NStates     int        `json:"nstates"`
	NSyms       int        `json:"nsyms"`
	TransLo     int        `json:"trans_lo"`
	TransHi     int        `json:"trans_hi"`
	Fuel        int        `json:"fuel"`
	Histories   [][]string `json:"histories,omitempty"`
	HistoryMode string     `json:"history_mode,omitempty"`
	Repeat      int        `json:"repeat,omitempty"`
}

type Out struct {
	Pkg     string      `json:"pkg"`
	Input   string      `json:"input"`
	Kind    string      `json:"kind"`
	Res     *rt.Result  `json:"res,omitempty"`
	Dump    [][]int     `json:"dump,omitempty"`
	Trans   []int       `json:"trans,omitempty"`
	Err     string      `json:"err,omitempty"`
	Job     int         `json:"job"`
	Pos     int         `json:"pos"`
	History []string    `json:"history,omitempty"`
	Results []rt.Result `json:"results,omitempty"`
}

// SchedJob / SchedOut mirror the driver's scheduler protocol (sched_drv.go.txt).
type SchedJob struct {
	Pkg          string   `json:"pkg"`
	Inputs       []string `json:"inputs"`
	Bound        int      `json:"bound"`
	Fuel         int      `json:"fuel"`
	MaxSchedules int      `json:"max_schedules"`
	Trace        bool     `json:"trace"`
	Goroutines   int      `json:"goroutines"`
	Rounds       int      `json:"rounds"`
}

type SchedOut struct {
	Pkg         string      `json:"pkg"`
	Kind        string      `json:"kind"`
	Inputs      []string    `json:"inputs"`
	Schedules   int         `json:"schedules"`
	Points      int         `json:"points"`
	Capped      bool        `json:"capped"`
	Solo        []rt.Result `json:"solo"`
	BadSchedule []int       `json:"bad_schedule,omitempty"`
	BadThread   int         `json:"bad_thread"`
	BadResult   *rt.Result  `json:"bad_result,omitempty"`
	Replayed    bool        `json:"replayed"`
	Outcomes    []int       `json:"outcomes"`
	Err         string      `json:"err,omitempty"`
}

// BuildRace links the same driver with the race detector (drv-race).
func (b *Batch) BuildRace() error {
	cmd := exec.Command("go", "build", "-race", "-o", "drv-race", ".")
	cmd.Dir = b.Dir
	cmd.Env = b.buildEnv("CGO_ENABLED=1")
	out, err := cmd.CombinedOutput()
	if err != nil {
		return fmt.Errorf("go build -race of the driver failed:\n%s", tail(string(out), 2000))
	}
	return nil
}

// RunSched runs scheduler (or race) jobs; race selects the -race binary. The
// combined output of the process is returned (race reports go to stderr).
func (b *Batch) RunSched(jobs []SchedJob, race bool, f func(o *SchedOut)) (string, error) {
	jp := filepath.Join(b.Dir, "schedjobs.json")
	op := filepath.Join(b.Dir, "schedout.json")
	jf, err := os.Create(jp)
	if err != nil {
		return "", err
	}
	enc := json.NewEncoder(jf)
	for _, j := range jobs {
		enc.Encode(j)
	}
	jf.Close()
	bin := "drv"
	env := append(os.Environ(), "GOMAXPROCS=2", "TMPDIR="+b.Dir)
	if race {
		bin = "drv-race"
		env = append(os.Environ(), "GOMAXPROCS=8", "GORACE=exitcode=66 halt_on_error=0", "TMPDIR="+b.Dir)
	}
	ctx, cancel := context.WithTimeout(context.Background(), 20*time.Minute)
	defer cancel()
	cmd := evid.Guarded(ctx, 1800, b.Dir, env, filepath.Join(b.Dir, bin), "sched", jp, op)
	out, runErr := cmd.CombinedOutput()
	of, err := os.Open(op)
	if err == nil {
		defer of.Close()
		dec := json.NewDecoder(bufio.NewReaderSize(of, 1<<20))
		for dec.More() {
			var o SchedOut
			if dec.Decode(&o) != nil {
				break
			}
			f(&o)
		}
	}
	return string(out), runErr
}

// RunGo executes the jobs in the driver binary and streams the results to f.
// If a generated parser hangs (the driver's watchdog ends the process with
// status 98 after naming the parse), the hung input is reported to f as a
// result of class "hang", the remaining inputs of that job are skipped, and
// the driver is started again with the following jobs.
func (b *Batch) RunGo(jobs []Job, f func(o *Out)) error {
	if !b.built {
		return fmt.Errorf("driver not built")
	}
	pending := jobs
	for round := 0; len(pending) > 0; round++ {
		if round > 200 {
			return fmt.Errorf("driver: too many hangs")
		}
		jp := filepath.Join(b.Dir, "jobs.json")
		op := filepath.Join(b.Dir, "out.json")
		jf, err := os.Create(jp)
		if err != nil {
			return err
		}
		bw := bufio.NewWriter(jf)
		enc := json.NewEncoder(bw)
		for _, j := range pending {
			enc.Encode(j)
		}
		bw.Flush()
		jf.Close()
		ctx, cancel := context.WithTimeout(context.Background(), 30*time.Minute)
		cmd := evid.Guarded(ctx, 1800, b.Dir, append(os.Environ(), "GOMAXPROCS=2", "TMPDIR="+b.Dir), filepath.Join(b.Dir, "drv"), jp, op)
		out, runErr := cmd.CombinedOutput()
		cancel()
		code := 0
		if ee, ok := runErr.(*exec.ExitError); ok {
			code = ee.ExitCode()
		} else if runErr != nil {
			return fmt.Errorf("driver run failed: %v", runErr)
		}
		if code != 0 && code != 98 {
			return fmt.Errorf("driver run failed: exit %d\n%s", code, tail(string(out), 3000))
		}
		of, err := os.Open(op)
		if err != nil {
			return err
		}
		hungJob := -1
		dec := json.NewDecoder(bufio.NewReaderSize(of, 1<<20))
		for dec.More() {
			var o Out
			if err := dec.Decode(&o); err != nil {
				break // the watchdog may have cut the last record short
			}
			if o.Kind == "hang" {
				hungJob = o.Job
				o.Kind = "run"
				o.Res = &rt.Result{Class: "hang", Panic: "the generated parser does not return (no lexer call, no action for 8 s)"}
				f(&o)
				// the remaining inputs of that job are not run
				if hungJob >= 0 && hungJob < len(pending) {
					rest := pending[hungJob].Inputs
					for k := o.Pos + 1; k < len(rest); k++ {
						f(&Out{Pkg: o.Pkg, Input: rest[k], Kind: "run", Res: &rt.Result{Class: "not-run"}, Job: hungJob, Pos: k})
					}
				}
				continue
			}
			f(&o)
		}
		of.Close()
		if code == 0 {
			return nil
		}
		if hungJob < 0 || hungJob >= len(pending) {
			return fmt.Errorf("driver ended with status 98 without naming the hung parse")
		}
		pending = pending[hungJob+1:]
	}
	return nil
}
