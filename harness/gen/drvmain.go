package gen

// driverMain is the source of the driver program that links all generated Go
// parsers of a batch. %s is replaced by the import list.
const driverMain = `package main

import (
	"bufio"
	"encoding/json"
	"fmt"
	"io"
	"os"
	"sync/atomic"
	"time"

	"gendrv/rt"
%s
)

type Job struct {
	Pkg     string   ` + "`json:\"pkg\"`" + `
	Inputs  []string ` + "`json:\"inputs\"`" + `
	Trace   bool     ` + "`json:\"trace\"`" + `
	NStates int      ` + "`json:\"nstates\"`" + `
	NSyms   int      ` + "`json:\"nsyms\"`" + `
	TransLo int      ` + "`json:\"trans_lo\"`" + `
	TransHi int      ` + "`json:\"trans_hi\"`" + `
	Fuel    int      ` + "`json:\"fuel\"`" + `
	Repeat      int        ` + "`json:\"repeat\"`" + `
	Histories   [][]string ` + "`json:\"histories\"`" + `
	HistoryMode string     ` + "`json:\"history_mode\"`" + `
}

type Out struct {
	Pkg    string      ` + "`json:\"pkg\"`" + `
	Input  string      ` + "`json:\"input\"`" + `
	Kind   string      ` + "`json:\"kind\"`" + `
	Res    *rt.Result  ` + "`json:\"res,omitempty\"`" + `
	Dump   [][]int     ` + "`json:\"dump,omitempty\"`" + `
	Trans  []int       ` + "`json:\"trans,omitempty\"`" + `
	Err    string      ` + "`json:\"err,omitempty\"`" + `
	Job    int         ` + "`json:\"job\"`" + `
	Pos    int         ` + "`json:\"pos\"`" + `
	History []string   ` + "`json:\"history,omitempty\"`" + `
	Results []rt.Result ` + "`json:\"results,omitempty\"`" + `
}

var capFile *os.File

func capture(f func()) string {
	if capFile == nil {
		var err error
		capFile, err = os.CreateTemp("", "drvout-*")
		if err != nil {
			panic(err)
		}
		os.Remove(capFile.Name())
	}
	capFile.Truncate(0)
	capFile.Seek(0, io.SeekStart)
	old := os.Stdout
	os.Stdout = capFile
	func() {
		defer func() { os.Stdout = old }()
		f()
	}()
	capFile.Seek(0, io.SeekStart)
	b, _ := io.ReadAll(capFile)
	return string(b)
}

// watchdog: a generated parser that loops without calling the lexer or an
// action burns no fuel. If one parse takes longer than the limit (seconds of
// wall clock for something that normally takes microseconds) the driver
// reports it as a hang and exits with status 98; the harness resumes with the
// next job.
var (
	runStart  int64 // unix nanoseconds, 0 = no parse in progress
	curJob    int64
	curPos    int64
	curPkg    atomic.Value
	curInput  atomic.Value
)

func main() {
	if len(os.Args) > 3 && os.Args[1] == "sched" {
		schedMain(os.Args[2], os.Args[3])
		return
	}
	jf, err := os.Open(os.Args[1])
	if err != nil {
		panic(err)
	}
	of, err := os.Create(os.Args[2])
	if err != nil {
		panic(err)
	}
	w := bufio.NewWriterSize(of, 1<<20)
	enc := json.NewEncoder(w)
	dec := json.NewDecoder(bufio.NewReaderSize(jf, 1<<20))
	go func() {
		for {
			time.Sleep(250 * time.Millisecond)
			st := atomic.LoadInt64(&runStart)
			if st != 0 && time.Now().UnixNano()-st > int64(8*time.Second) {
				// the main goroutine is stuck inside a generated parser and is not writing
				pkg, _ := curPkg.Load().(string)
				in, _ := curInput.Load().(string)
				enc.Encode(Out{Pkg: pkg, Input: in, Kind: "hang", Job: int(atomic.LoadInt64(&curJob)), Pos: int(atomic.LoadInt64(&curPos))})
				w.Flush()
				of.Close()
				os.Exit(98)
			}
		}
	}()
	jobNo := -1
	for {
		var j Job
		if err := dec.Decode(&j); err != nil {
			if err == io.EOF {
				break
			}
			panic(err)
		}
		jobNo++
		p, ok := rt.Registry[j.Pkg]
		if !ok {
			enc.Encode(Out{Pkg: j.Pkg, Kind: "error", Err: "package not linked", Job: jobNo})
			continue
		}
		begin := func(pos int, in string) {
			curPkg.Store(j.Pkg)
			curInput.Store(in)
			atomic.StoreInt64(&curJob, int64(jobNo))
			atomic.StoreInt64(&curPos, int64(pos))
			atomic.StoreInt64(&runStart, time.Now().UnixNano())
		}
		end := func() { atomic.StoreInt64(&runStart, 0) }
		if j.NStates > 0 {
			func() {
				defer func() {
					if e := recover(); e != nil {
						enc.Encode(Out{Pkg: j.Pkg, Kind: "dump", Err: fmt.Sprint(e)})
					}
				}()
				enc.Encode(Out{Pkg: j.Pkg, Kind: "dump", Dump: p.Dump(j.NStates, j.NSyms), Job: jobNo})
			}()
		}
		if j.TransHi > j.TransLo {
			enc.Encode(Out{Pkg: j.Pkg, Kind: "trans", Trans: p.Translate(j.TransLo, j.TransHi), Job: jobNo})
		}
		fuel := j.Fuel
		if fuel == 0 {
			fuel = 5000
		}
		for pos, in := range j.Inputs {
			var res rt.Result
			run := rt.Begin(fuel)
				run.Input = in
			begin(pos, in)
			if j.Trace {
				tr := capture(func() { res = p.Run(in, true, run, true) })
				res.Trace = tr
			} else {
				res = p.Run(in, false, run, true)
			}
			end()
			rt.Cur = nil
			enc.Encode(Out{Pkg: j.Pkg, Input: in, Kind: "run", Res: &res, Job: jobNo, Pos: pos})
		}
		if j.Repeat > 0 && len(j.Inputs) > 0 {
			// one parser (global) or one context (-o) re-initialised j.Repeat times: the last round
			// of results is reported, plus the first deviation from the first round if there is one
			var ctx interface{}
			if p.Object {
				ctx = p.NewCtx()
			}
			first := make([]string, len(j.Inputs))
			var last []rt.Result
			devAt, devIn := -1, ""
			rounds := 0
			started := time.Now()
			for n := 0; n < j.Repeat && devAt < 0; n++ {
				// thousands of rounds normally take a second or two; a parser that gets slower with every
				// round (a stack that is never reset) is given a minute, the rounds done are reported
				if time.Since(started) > time.Minute {
					break
				}
				rounds = n + 1
				last = last[:0]
				for k, in := range j.Inputs {
					run := rt.Begin(fuel)
				run.Input = in
					begin(len(j.Inputs)+k, in)
					var res rt.Result
					if p.Object {
						res = p.RunCtx(ctx, in, false, run, n > 0 || k > 0)
					} else {
						res = p.Run(in, false, run, true)
					}
					end()
					rt.Cur = nil
					sg := fmt.Sprintf("%s|%d|%v|%d|%s", res.Class, res.Fetches, res.Reds, res.N, res.S)
					if n == 0 {
						first[k] = sg
					} else if sg != first[k] && devAt < 0 {
						devAt, devIn = n*len(j.Inputs)+k, in
						last = append(last, res)
						break
					}
					last = append(last, res)
				}
			}
			enc.Encode(Out{Pkg: j.Pkg, Kind: "repeat", Results: last, Job: jobNo, Pos: devAt, Input: devIn, Trans: []int{rounds}})
		}
		for hi, h := range j.Histories {
			var rs []rt.Result
			var ctx interface{}
			// the caller keeps every returned value (a pointer) until the history is over
			var held []func() (int, string)
			var heldAt []int
			for k, in := range h {
				kk := k
				rt.Hold = func(read func() (int, string)) { held, heldAt = append(held, read), append(heldAt, kk) }
				run := rt.Begin(fuel)
				run.Input = in
				begin(len(j.Inputs)+hi, in)
				var res rt.Result
				switch j.HistoryMode {
				case "ctx-reinit": // one context, ParserInit() before every parse but the first
					if ctx == nil {
						ctx = p.NewCtx()
					}
					res = p.RunCtx(ctx, in, false, run, k > 0)
				case "ctx-fresh": // a fresh context per parse
					res = p.RunCtx(p.NewCtx(), in, false, run, false)
				case "first-noinit": // rely on the package's init() for the first parse
					res = p.Run(in, false, run, k > 0)
				default: // ParserInit() before every parse
					res = p.Run(in, false, run, true)
				}
				end()
				rt.Cur = nil
				rs = append(rs, res)
			}
			rt.Hold = nil
			for i, read := range held {
				if k := heldAt[i]; k < len(rs) && rs[k].Class == "accept" {
					if n, s := read(); n != rs[k].N || s != rs[k].S {
						rs[k].Later = fmt.Sprint(n) + "/" + s
					}
				}
			}
			enc.Encode(Out{Pkg: j.Pkg, Kind: "history", History: h, Results: rs, Job: jobNo})
		}
	}
	w.Flush()
	of.Close()
}
`
