// Package ref contains the reference models (oracles): textbook definitions,
// written independently of yaccgo's algorithms, small and slow on purpose.
package ref

import (
	"fmt"
	"sort"
	"strings"

	"verifharness/gram"
)

type Rule struct {
	L    int
	R    []int
	Prec int // terminal whose precedence the rule carries, -1 none
	// PrecAmbiguous: the last terminal of the rule has no precedence but an
	// earlier one has (yacc and yaccgo disagree; the property does not say).
	PrecAmbiguous bool
}

type Grammar struct {
	Names []string // symbol names as written in the spec; last = "$accept"
	IsNT  []bool
	Rules []Rule // Rules[0] = $accept -> Start
	Start int
	// per terminal: precedence level (0 = none) and associativity
	Level []int
	Assoc []string
	// Undefined lists symbols used in rules that are neither tokens nor
	// left-hand sides; NoStart is set when the start symbol has no rule.
	Undefined []string
	NoRuleNT  []string // %type-declared or start symbols without any rule
	ids       map[string]int
}

// EOF is the pseudo terminal id of the end marker in lookahead sets.
func (g *Grammar) EOF() int { return len(g.Names) }

func (g *Grammar) ID(name string) int {
	if i, ok := g.ids[name]; ok {
		return i
	}
	return -1
}

// Set is a set of symbol numbers below 256.
type Set [4]uint64

func (s Set) Has(i int) bool { return i >= 0 && i < 256 && s[i>>6]&(1<<uint(i&63)) != 0 }
func (s *Set) Add(i int)     { s[i>>6] |= 1 << uint(i&63) }
func (s Set) Or(t Set) Set {
	for i := range s {
		s[i] |= t[i]
	}
	return s
}
func (s Set) AndNot(t Set) Set {
	for i := range s {
		s[i] &^= t[i]
	}
	return s
}
func (s Set) IsZero() bool { return s == Set{} }
func (s Set) Hex() string  { return fmt.Sprintf("%x.%x.%x.%x", s[0], s[1], s[2], s[3]) }
func (s Set) Members() []int {
	var m []int
	for i := 0; i < 256; i++ {
		if s.Has(i) {
			m = append(m, i)
		}
	}
	return m
}

// FromSpec builds the reference grammar. Terminals come first (declaration
// order), then nonterminals (order of first rule), then $accept.
func FromSpec(s *gram.Spec) *Grammar {
	g := &Grammar{ids: map[string]int{}}
	add := func(n string, nt bool) int {
		if i, ok := g.ids[n]; ok {
			return i
		}
		g.ids[n] = len(g.Names)
		g.Names = append(g.Names, n)
		g.IsNT = append(g.IsNT, nt)
		return len(g.Names) - 1
	}
	for _, t := range s.Terminals() {
		add(t, false)
	}
	nts := s.Nonterminals()
	for _, n := range nts {
		if _, dup := g.ids[n]; dup {
			// declared as token and defined by rules: out of the harness's domain
			g.Undefined = append(g.Undefined, n+"(token with rules)")
		}
		add(n, true)
	}
	// symbols that are used but undefined
	undefSeen := map[string]bool{}
	for _, r := range s.Rules {
		for _, x := range r.R {
			if _, ok := g.ids[x]; !ok && !undefSeen[x] {
				undefSeen[x] = true
				g.Undefined = append(g.Undefined, x)
			}
		}
		// a name after %prec is a use of that symbol too (character literals need no declaration)
		if x := r.Prec; x != "" && !gram.IsLit(x) {
			if _, ok := g.ids[x]; !ok && !undefSeen[x] {
				undefSeen[x] = true
				g.Undefined = append(g.Undefined, x)
			}
		}
	}
	start := s.StartSymbol()
	if i, ok := g.ids[start]; !ok || !g.IsNT[i] {
		g.NoRuleNT = append(g.NoRuleNT, start)
	}
	for _, t := range s.Types {
		for _, n := range t.Names {
			if _, ok := g.ids[n]; !ok {
				g.NoRuleNT = append(g.NoRuleNT, n)
			}
		}
	}
	if len(g.Undefined) > 0 || len(g.NoRuleNT) > 0 {
		return g
	}
	acc := add("$accept", true)
	g.Start = g.ids[start]
	g.Level = make([]int, len(g.Names))
	g.Assoc = make([]string, len(g.Names))
	for lv, p := range s.Prec {
		for _, t := range p.Toks {
			if i, ok := g.ids[t]; ok {
				g.Level[i] = lv + 1
				g.Assoc[i] = p.Assoc
			}
		}
	}
	g.Rules = append(g.Rules, Rule{L: acc, R: []int{g.Start}, Prec: -1})
	for _, r := range s.Rules {
		rr := Rule{L: g.ids[r.L], Prec: -1}
		lastTerm := -1
		lastWithPrec := -1
		for _, x := range r.R {
			i := g.ids[x]
			rr.R = append(rr.R, i)
			if !g.IsNT[i] {
				lastTerm = i
				if g.Level[i] > 0 {
					lastWithPrec = i
				}
			}
		}
		if r.Prec != "" {
			rr.Prec = g.ids[r.Prec]
			if g.Level[rr.Prec] == 0 {
				rr.Prec = -1
			}
		} else if lastTerm >= 0 {
			if g.Level[lastTerm] > 0 {
				rr.Prec = lastTerm
			} else if lastWithPrec >= 0 {
				rr.Prec = lastWithPrec
				rr.PrecAmbiguous = true
			}
		}
		g.Rules = append(g.Rules, rr)
	}
	if len(g.Names)+1 > 254 {
		panic("ref: too many symbols for the bitset representation")
	}
	return g
}

func (g *Grammar) RuleString(i int) string {
	r := g.Rules[i]
	s := g.Names[r.L] + " ->"
	for _, x := range r.R {
		s += " " + g.Names[x]
	}
	return s
}

// Nullable computes, by fixpoint, which symbols derive the empty string.
func (g *Grammar) Nullable() []bool {
	n := make([]bool, len(g.Names))
	for ch := true; ch; {
		ch = false
		for _, r := range g.Rules {
			if n[r.L] {
				continue
			}
			all := true
			for _, x := range r.R {
				if !n[x] {
					all = false
					break
				}
			}
			if all {
				n[r.L] = true
				ch = true
			}
		}
	}
	return n
}

// Productive computes which symbols derive some terminal string.
func (g *Grammar) Productive() []bool {
	p := make([]bool, len(g.Names))
	for i := range p {
		p[i] = !g.IsNT[i]
	}
	for ch := true; ch; {
		ch = false
		for _, r := range g.Rules {
			if p[r.L] {
				continue
			}
			all := true
			for _, x := range r.R {
				if !p[x] {
					all = false
					break
				}
			}
			if all {
				p[r.L] = true
				ch = true
			}
		}
	}
	return p
}

// Unproductive returns the names of nonterminals (other than $accept, unless
// nothing else explains it) that derive no terminal string.
func (g *Grammar) Unproductive() []string {
	p := g.Productive()
	var out []string
	for i, nt := range g.IsNT {
		if nt && !p[i] && g.Names[i] != "$accept" {
			out = append(out, g.Names[i])
		}
	}
	sort.Strings(out)
	return out
}

// Usable reports whether the grammar is one yaccgo must process (C12).
func (g *Grammar) Usable() bool {
	return len(g.Undefined) == 0 && len(g.NoRuleNT) == 0 && len(g.Unproductive()) == 0
}

// First sets of symbols (terminals only, no epsilon marker).
func (g *Grammar) First() []Set {
	nullable := g.Nullable()
	f := make([]Set, len(g.Names))
	for i, nt := range g.IsNT {
		if !nt {
			f[i].Add(i)
		}
	}
	for ch := true; ch; {
		ch = false
		for _, r := range g.Rules {
			old := f[r.L]
			for _, x := range r.R {
				f[r.L] = f[r.L].Or(f[x])
				if !nullable[x] {
					break
				}
			}
			if f[r.L] != old {
				ch = true
			}
		}
	}
	return f
}

// ---------------------------------------------------------------------------
// LR(0)

type Item struct{ Rule, Dot int }

type State struct {
	Items []Item      // complete closure, sorted by (rule, dot)
	Trans map[int]int // symbol -> state
}

type Automaton struct {
	G      *Grammar
	States []*State
	Index  map[string]int // item-set key -> state
}

func ItemsKey(items []Item) string {
	s := append([]Item(nil), items...)
	sort.Slice(s, func(i, j int) bool {
		if s[i].Rule != s[j].Rule {
			return s[i].Rule < s[j].Rule
		}
		return s[i].Dot < s[j].Dot
	})
	var b strings.Builder
	for _, it := range s {
		fmt.Fprintf(&b, "%d.%d,", it.Rule, it.Dot)
	}
	return b.String()
}

func (g *Grammar) closure0(kernel []Item) []Item {
	set := map[Item]bool{}
	var work []Item
	for _, it := range kernel {
		if !set[it] {
			set[it] = true
			work = append(work, it)
		}
	}
	for len(work) > 0 {
		it := work[len(work)-1]
		work = work[:len(work)-1]
		r := g.Rules[it.Rule]
		if it.Dot >= len(r.R) {
			continue
		}
		x := r.R[it.Dot]
		if !g.IsNT[x] {
			continue
		}
		for ri, rr := range g.Rules {
			if rr.L == x {
				n := Item{ri, 0}
				if !set[n] {
					set[n] = true
					work = append(work, n)
				}
			}
		}
	}
	out := make([]Item, 0, len(set))
	for it := range set {
		out = append(out, it)
	}
	sort.Slice(out, func(i, j int) bool {
		if out[i].Rule != out[j].Rule {
			return out[i].Rule < out[j].Rule
		}
		return out[i].Dot < out[j].Dot
	})
	return out
}

// LR0 builds the canonical collection of LR(0) item sets reachable from the
// closure of [$accept -> . Start].
func (g *Grammar) LR0() *Automaton {
	a := &Automaton{G: g, Index: map[string]int{}}
	add := func(items []Item) int {
		k := ItemsKey(items)
		if i, ok := a.Index[k]; ok {
			return i
		}
		a.Index[k] = len(a.States)
		a.States = append(a.States, &State{Items: items, Trans: map[int]int{}})
		return len(a.States) - 1
	}
	add(g.closure0([]Item{{0, 0}}))
	for i := 0; i < len(a.States); i++ {
		st := a.States[i]
		by := map[int][]Item{}
		var order []int
		for _, it := range st.Items {
			r := g.Rules[it.Rule]
			if it.Dot < len(r.R) {
				x := r.R[it.Dot]
				if _, ok := by[x]; !ok {
					order = append(order, x)
				}
				by[x] = append(by[x], Item{it.Rule, it.Dot + 1})
			}
		}
		sort.Ints(order)
		for _, x := range order {
			st.Trans[x] = add(g.closure0(by[x]))
		}
	}
	return a
}

// ---------------------------------------------------------------------------
// canonical LR(1), merged by core = the definition of LALR(1) lookaheads

type lr1State struct {
	la    map[Item]Set
	trans map[int]int
}

func (g *Grammar) firstOfSeq(first []Set, nullable []bool, seq []int, la Set) Set {
	var s Set
	for _, x := range seq {
		s = s.Or(first[x])
		if !nullable[x] {
			return s
		}
	}
	return s.Or(la)
}

func (g *Grammar) closure1(first []Set, nullable []bool, st map[Item]Set) {
	for ch := true; ch; {
		ch = false
		for it, la := range st {
			r := g.Rules[it.Rule]
			if it.Dot >= len(r.R) {
				continue
			}
			x := r.R[it.Dot]
			if !g.IsNT[x] {
				continue
			}
			f := g.firstOfSeq(first, nullable, r.R[it.Dot+1:], la)
			for ri, rr := range g.Rules {
				if rr.L == x {
					n := Item{ri, 0}
					if st[n].Or(f) != st[n] || !hasKey(st, n) {
						st[n] = st[n].Or(f)
						ch = true
					}
				}
			}
		}
	}
}

func hasKey(m map[Item]Set, k Item) bool { _, ok := m[k]; return ok }

func lr1Key(st map[Item]Set) string {
	items := make([]Item, 0, len(st))
	for it := range st {
		items = append(items, it)
	}
	sort.Slice(items, func(i, j int) bool {
		if items[i].Rule != items[j].Rule {
			return items[i].Rule < items[j].Rule
		}
		return items[i].Dot < items[j].Dot
	})
	var b strings.Builder
	for _, it := range items {
		fmt.Fprintf(&b, "%d.%d:%s,", it.Rule, it.Dot, st[it].Hex())
	}
	return b.String()
}

// LALR returns, for every LR(0) state and every completed rule in it, the
// union of the LR(1) lookaheads over all canonical LR(1) states with that
// core. LR1States reports the size of the canonical LR(1) collection.
func (a *Automaton) LALR() (la []map[int]Set, lr1States int) {
	g := a.G
	first := g.First()
	nullable := g.Nullable()
	var states []*lr1State
	index := map[string]int{}
	add := func(st map[Item]Set) int {
		k := lr1Key(st)
		if i, ok := index[k]; ok {
			return i
		}
		index[k] = len(states)
		states = append(states, &lr1State{la: st, trans: map[int]int{}})
		return len(states) - 1
	}
	var eof Set
	eof.Add(g.EOF())
	s0 := map[Item]Set{{0, 0}: eof}
	g.closure1(first, nullable, s0)
	add(s0)
	for i := 0; i < len(states); i++ {
		st := states[i]
		by := map[int]map[Item]Set{}
		for it, l := range st.la {
			r := g.Rules[it.Rule]
			if it.Dot < len(r.R) {
				x := r.R[it.Dot]
				if by[x] == nil {
					by[x] = map[Item]Set{}
				}
				by[x][Item{it.Rule, it.Dot + 1}] = by[x][Item{it.Rule, it.Dot + 1}].Or(l)
			}
		}
		for x, k := range by {
			g.closure1(first, nullable, k)
			st.trans[x] = add(k)
		}
	}
	la = make([]map[int]Set, len(a.States))
	for i := range la {
		la[i] = map[int]Set{}
	}
	for _, st := range states {
		items := make([]Item, 0, len(st.la))
		for it := range st.la {
			items = append(items, it)
		}
		ci, ok := a.Index[ItemsKey(items)]
		if !ok {
			panic("ref: LR(1) core without LR(0) state")
		}
		for it, l := range st.la {
			if it.Dot == len(g.Rules[it.Rule].R) {
				la[ci][it.Rule] = la[ci][it.Rule].Or(l)
			}
		}
	}
	return la, len(states)
}

// ---------------------------------------------------------------------------
// reference action table

type ActKind int

const (
	Error ActKind = iota
	Shift
	Reduce
	Accept
)

type Act struct {
	Kind ActKind
	Arg  int // Shift: target state; Reduce: rule
}

func (a Act) String() string {
	switch a.Kind {
	case Shift:
		return fmt.Sprintf("s%d", a.Arg)
	case Reduce:
		return fmt.Sprintf("r%d", a.Arg)
	case Accept:
		return "acc"
	}
	return "err"
}

type Cell struct {
	Cands []Act // all candidate actions (Accept counted as reduce by rule 0)
	// Want is the action prescribed by C04 when Judged; for cells with a
	// single candidate Want is that candidate.
	Want   Act
	Judged bool
	// Warn: the conflict is not resolved by precedence, a warning is due
	Warn bool
	// Why explains unjudged cells
	Why string
	// Multi: more than two candidates
	Multi bool
}

type Table struct {
	A     *Automaton
	LA    []map[int]Set
	Cells []map[int]*Cell // per state: terminal id (or EOF) -> cell (absent = error)
	// ConflictFree: no cell has more than one candidate
	ConflictFree bool
	LR1States    int
}

func (a *Automaton) Table() *Table {
	g := a.G
	la, n1 := a.LALR()
	t := &Table{A: a, LA: la, ConflictFree: true, LR1States: n1}
	t.Cells = make([]map[int]*Cell, len(a.States))
	for si, st := range a.States {
		cells := map[int]*Cell{}
		get := func(x int) *Cell {
			if cells[x] == nil {
				cells[x] = &Cell{}
			}
			return cells[x]
		}
		for x, to := range st.Trans {
			if !g.IsNT[x] {
				c := get(x)
				c.Cands = append(c.Cands, Act{Shift, to})
			}
		}
		var rules []int
		for r := range la[si] {
			rules = append(rules, r)
		}
		sort.Ints(rules)
		for _, r := range rules {
			for _, x := range la[si][r].Members() {
				c := get(x)
				if r == 0 {
					c.Cands = append(c.Cands, Act{Accept, 0})
				} else {
					c.Cands = append(c.Cands, Act{Reduce, r})
				}
			}
		}
		for x, c := range cells {
			g.resolve(x, c)
			if len(c.Cands) > 1 {
				t.ConflictFree = false
			}
		}
		t.Cells[si] = cells
	}
	return t
}

// resolve applies the rule stated in C04 to one cell.
func (g *Grammar) resolve(x int, c *Cell) {
	if len(c.Cands) == 1 {
		c.Want, c.Judged = c.Cands[0], true
		return
	}
	if len(c.Cands) > 2 {
		g.resolveMulti(x, c)
		return
	}
	g.resolvePair(x, c)
}

// resolveMulti: the statement of C04 is about pairs. A cell with more than
// two candidates is judged only when it does not matter in which order the
// pairs are taken: the candidates are folded with the two-way rule in every
// order (running winner against the next candidate); if every comparison on
// the way is one the statement decides, none of them ends in the %nonassoc
// error, and all orders end with the same winner, that winner is prescribed.
func (g *Grammar) resolveMulti(x int, c *Cell) {
	c.Multi = true
	n := len(c.Cands)
	if n > 5 {
		c.Why = "more than five candidates"
		return
	}
	for _, a := range c.Cands {
		if a.Kind == Accept {
			c.Why = "conflict with accept"
			return
		}
	}
	pair := func(a, b Act) (Act, bool, bool) {
		if a.Kind == Reduce && b.Kind == Shift {
			a, b = b, a
		}
		if a.Kind == Reduce && b.Kind == Reduce && a.Arg > b.Arg {
			a, b = b, a
		}
		pc := &Cell{Cands: []Act{a, b}}
		g.resolvePair(x, pc)
		return pc.Want, pc.Judged && pc.Want.Kind != Error, pc.Warn
	}
	perm := make([]int, n)
	for i := range perm {
		perm[i] = i
	}
	var winner Act
	first, ok, warn := true, true, false
	var rec func(k int)
	rec = func(k int) {
		if !ok {
			return
		}
		if k == n {
			w := c.Cands[perm[0]]
			for _, i := range perm[1:] {
				nw, judged, wn := pair(w, c.Cands[i])
				if !judged {
					ok = false
					return
				}
				warn = warn || wn
				w = nw
			}
			if first {
				winner, first = w, false
			} else if w != winner {
				ok = false
			}
			return
		}
		for i := k; i < n; i++ {
			perm[k], perm[i] = perm[i], perm[k]
			rec(k + 1)
			perm[k], perm[i] = perm[i], perm[k]
		}
	}
	rec(0)
	if !ok {
		c.Why = "more than two candidates and the outcome depends on the order in which pairs are compared (or a pair is not decided by the statement)"
		return
	}
	c.Judged, c.Want, c.Warn = true, winner, warn
}

// resolvePair applies the rule to a cell with exactly two candidates.
func (g *Grammar) resolvePair(x int, c *Cell) {
	a, b := c.Cands[0], c.Cands[1]
	if a.Kind == Accept || b.Kind == Accept {
		c.Why = "conflict with accept"
		return
	}
	if a.Kind == Shift && b.Kind == Reduce {
		r := g.Rules[b.Arg]
		if x < len(g.Level) && g.Level[x] > 0 && r.Prec >= 0 {
			if r.PrecAmbiguous {
				c.Why = "rule precedence comes from a non-last terminal (yacc: none; yaccgo: that terminal)"
				return
			}
			c.Judged = true
			switch {
			case g.Level[r.Prec] > g.Level[x]:
				c.Want = b
			case g.Level[r.Prec] < g.Level[x]:
				c.Want = a
			default:
				switch g.Assoc[x] {
				case "left":
					c.Want = b
				case "right":
					c.Want = a
				case "precedence":
					// bison's %precedence gives a level and no associativity; what happens at equal
					// level is not part of the statement (bison: unresolved, yaccgo: as %nonassoc)
					c.Judged = false
					c.Why = "equal level on a %precedence line"
				default:
					c.Want = Act{Kind: Error}
				}
			}
			return
		}
		if r.PrecAmbiguous && x < len(g.Level) && g.Level[x] > 0 {
			c.Why = "rule precedence comes from a non-last terminal (yacc: none; yaccgo: that terminal)"
			return
		}
		c.Judged, c.Want, c.Warn = true, a, true
		return
	}
	if a.Kind == Reduce && b.Kind == Reduce {
		ra, rb := g.Rules[a.Arg], g.Rules[b.Arg]
		if ra.Prec >= 0 && rb.Prec >= 0 {
			c.Why = "reduce/reduce between two rules that both carry precedence"
			return
		}
		c.Judged, c.Warn = true, true
		if a.Arg < b.Arg {
			c.Want = a
		} else {
			c.Want = b
		}
		return
	}
	c.Why = "unexpected candidate pair"
}

// ---------------------------------------------------------------------------
// cover sentences

// CoverSentences returns, for every rule that can occur in a derivation of a
// sentence, one short sentence (as terminal ids) whose derivation uses that
// rule: the minimal left/right context of the rule's left side, with every
// other symbol expanded to its shortest yield. Sentences longer than maxLen
// are dropped; duplicates are removed.
func (g *Grammar) CoverSentences(maxLen int) [][]int {
	const inf = 1 << 20
	n := len(g.Names)
	minLen := make([]int, n)
	minRule := make([]int, n)
	for i := range minLen {
		if g.IsNT[i] {
			minLen[i] = inf
		} else {
			minLen[i] = 1
		}
		minRule[i] = -1
	}
	for ch := true; ch; {
		ch = false
		for ri, r := range g.Rules {
			l := 0
			for _, x := range r.R {
				l += minLen[x]
				if l >= inf {
					l = inf
					break
				}
			}
			if l < minLen[r.L] {
				minLen[r.L], minRule[r.L] = l, ri
				ch = true
			}
		}
	}
	var expand func(x int, depth int) []int
	expand = func(x int, depth int) []int {
		if !g.IsNT[x] {
			return []int{x}
		}
		if minRule[x] < 0 || depth > 64 {
			return nil
		}
		var out []int
		for _, y := range g.Rules[minRule[x]].R {
			out = append(out, expand(y, depth+1)...)
		}
		return out
	}
	expandSeq := func(xs []int) []int {
		var out []int
		for _, x := range xs {
			out = append(out, expand(x, 0)...)
		}
		return out
	}
	seqLen := func(xs []int) int {
		l := 0
		for _, x := range xs {
			l += minLen[x]
			if l >= inf {
				return inf
			}
		}
		return l
	}
	// minimal context of every nonterminal
	type ctx struct {
		pre, suf []int
		ok       bool
	}
	cx := make([]ctx, n)
	cx[g.Rules[0].L] = ctx{ok: true}
	for ch := true; ch; {
		ch = false
		for _, r := range g.Rules {
			if !cx[r.L].ok {
				continue
			}
			for i, x := range r.R {
				if !g.IsNT[x] || seqLen(r.R[:i]) >= inf || seqLen(r.R[i+1:]) >= inf {
					continue
				}
				pre := append(append([]int(nil), cx[r.L].pre...), expandSeq(r.R[:i])...)
				suf := append(expandSeq(r.R[i+1:]), cx[r.L].suf...)
				if !cx[x].ok || len(pre)+len(suf) < len(cx[x].pre)+len(cx[x].suf) {
					cx[x] = ctx{pre: pre, suf: suf, ok: true}
					ch = true
				}
			}
		}
	}
	seen := map[string]bool{}
	var out [][]int
	for ri, r := range g.Rules {
		if ri == 0 || !cx[r.L].ok || seqLen(r.R) >= inf {
			continue
		}
		s := append(append(append([]int(nil), cx[r.L].pre...), expandSeq(r.R)...), cx[r.L].suf...)
		if len(s) > maxLen {
			continue
		}
		k := fmt.Sprint(s)
		if !seen[k] {
			seen[k] = true
			out = append(out, s)
		}
	}
	return out
}

// ---------------------------------------------------------------------------
// the reference table as a parser (for grammars whose conflicts are all
// resolved by the rule of C04)

// AllJudged reports whether every cell of the table has a prescribed action.
func (t *Table) AllJudged() bool {
	for _, cells := range t.Cells {
		for _, c := range cells {
			if !c.Judged {
				return false
			}
		}
	}
	return true
}

// Action returns the prescribed action of state s on terminal x (or EOF).
func (t *Table) Action(s, x int) Act {
	if c := t.Cells[s][x]; c != nil && c.Judged {
		return c.Want
	}
	return Act{Kind: Error}
}

// SentencesOfLength returns, for every requested length that some sentence
// of the grammar has, up to two sentences of exactly that length (terminal
// ids): one built by preferring the first rule and the leftmost split that
// work, one by preferring the last rule and the rightmost split. Lengths up
// to maxLen are tabulated by a fixpoint over "nonterminal X derives a string
// of length n"; the construction then only follows choices that are known to
// succeed, so it never backtracks.
func (g *Grammar) SentencesOfLength(lengths []int) [][]int {
	maxLen := 0
	for _, l := range lengths {
		if l > maxLen {
			maxLen = l
		}
	}
	n := len(g.Names)
	can := make([][]bool, n) // can[x][l]
	for x := 0; x < n; x++ {
		can[x] = make([]bool, maxLen+1)
		if !g.IsNT[x] && maxLen >= 1 {
			can[x][1] = true
		}
	}
	// seqCan(rhs, from)[l]: the symbols rhs[from:] derive a string of length l
	seqCan := func(rhs []int) [][]bool {
		t := make([][]bool, len(rhs)+1)
		for i := range t {
			t[i] = make([]bool, maxLen+1)
		}
		t[len(rhs)][0] = true
		for i := len(rhs) - 1; i >= 0; i-- {
			for a := 0; a <= maxLen; a++ {
				if !can[rhs[i]][a] {
					continue
				}
				for b := 0; a+b <= maxLen; b++ {
					if t[i+1][b] {
						t[i][a+b] = true
					}
				}
			}
		}
		return t
	}
	for changed := true; changed; {
		changed = false
		for ri, r := range g.Rules {
			if ri == 0 {
				continue
			}
			t := seqCan(r.R)
			for l := 0; l <= maxLen; l++ {
				if t[0][l] && !can[r.L][l] {
					can[r.L][l] = true
					changed = true
				}
			}
		}
	}
	// tables per rule, computed once after the fixpoint
	seq := make([][][]bool, len(g.Rules))
	for ri, r := range g.Rules {
		if ri > 0 {
			seq[ri] = seqCan(r.R)
		}
	}
	type key struct {
		x, l int
		last bool
	}
	memo := map[key][]int{}
	failed := map[key]bool{}
	busy := map[key]bool{}
	var build func(x, l int, last bool) []int
	build = func(x, l int, last bool) []int {
		if !g.IsNT[x] {
			return []int{x}
		}
		k := key{x, l, last}
		if v, ok := memo[k]; ok {
			return v
		}
		if failed[k] || busy[k] {
			return nil // a derivation X =>+ X of the same length: take another rule
		}
		busy[k] = true
		defer delete(busy, k)
		order := make([]int, 0, 8)
		for ri := 1; ri < len(g.Rules); ri++ {
			if g.Rules[ri].L == x {
				order = append(order, ri)
			}
		}
		if last {
			for i, j := 0, len(order)-1; i < j; i, j = i+1, j-1 {
				order[i], order[j] = order[j], order[i]
			}
		}
		for _, ri := range order {
			r := g.Rules[ri]
			t := seq[ri]
			if !t[0][l] {
				continue
			}
			out := make([]int, 0, l)
			rest := l
			ok := true
			for i, sym := range r.R {
				found := -1
				if last {
					for a := rest; a >= 0; a-- {
						if can[sym][a] && t[i+1][rest-a] {
							found = a
							break
						}
					}
				} else {
					for a := 0; a <= rest; a++ {
						if can[sym][a] && t[i+1][rest-a] {
							found = a
							break
						}
					}
				}
				if found < 0 {
					ok = false
					break
				}
				sub := build(sym, found, last)
				if sub == nil {
					ok = false
					break
				}
				out = append(out, sub...)
				rest -= found
			}
			if ok && rest == 0 && len(out) == l {
				memo[k] = out
				return out
			}
		}
		failed[k] = true
		return nil
	}
	var res [][]int
	for _, l := range lengths {
		if l > maxLen || !can[g.Start][l] {
			continue
		}
		a := build(g.Start, l, false)
		if a != nil {
			res = append(res, a)
		}
		b := build(g.Start, l, true)
		if b != nil && fmt.Sprint(b) != fmt.Sprint(a) {
			res = append(res, b)
		}
	}
	return res
}
