package ref

// Earley recognizer, used as membership / viable-prefix oracle. It belongs to
// a different family than LR parsing, so table bugs and oracle bugs do not
// coincide. Nullable symbols are handled the Aycock-Horspool way (predicting
// a nullable nonterminal also advances over it).

type eItem struct {
	Rule, Dot, Origin int
}

type ESet struct {
	items []eItem
	has   map[eItem]bool
}

func (s *ESet) add(it eItem) {
	if !s.has[it] {
		s.has[it] = true
		s.items = append(s.items, it)
	}
}

type Earley struct {
	g        *Grammar
	nullable []bool
	byLHS    map[int][]int
}

func NewEarley(g *Grammar) *Earley {
	e := &Earley{g: g, nullable: g.Nullable(), byLHS: map[int][]int{}}
	for i, r := range g.Rules {
		e.byLHS[r.L] = append(e.byLHS[r.L], i)
	}
	return e
}

// finish runs predictor and completer on the set at position pos to fixpoint.
func (e *Earley) finish(chart []*ESet, pos int) {
	s := chart[pos]
	for i := 0; i < len(s.items); i++ {
		it := s.items[i]
		r := e.g.Rules[it.Rule]
		if it.Dot < len(r.R) {
			x := r.R[it.Dot]
			if e.g.IsNT[x] {
				for _, ri := range e.byLHS[x] {
					s.add(eItem{ri, 0, pos})
				}
				if e.nullable[x] {
					s.add(eItem{it.Rule, it.Dot + 1, it.Origin})
				}
			}
			continue
		}
		// completer
		orig := chart[it.Origin]
		for j := 0; j < len(orig.items); j++ {
			p := orig.items[j]
			pr := e.g.Rules[p.Rule]
			if p.Dot < len(pr.R) && pr.R[p.Dot] == r.L {
				s.add(eItem{p.Rule, p.Dot + 1, p.Origin})
			}
		}
	}
}

// Start returns the chart for the empty prefix.
func (e *Earley) Start() []*ESet {
	s := &ESet{has: map[eItem]bool{}}
	s.add(eItem{0, 0, 0})
	chart := []*ESet{s}
	e.finish(chart, 0)
	return chart
}

// Step extends the chart by one token. The returned chart shares its prefix
// with the argument (sets are immutable once finished). ok is false when no
// item survives the scan, i.e. the extended prefix is not the prefix of any
// sentence (all nonterminals being productive).
func (e *Earley) Step(chart []*ESet, tok int) (out []*ESet, ok bool) {
	prev := chart[len(chart)-1]
	s := &ESet{has: map[eItem]bool{}}
	for _, it := range prev.items {
		r := e.g.Rules[it.Rule]
		if it.Dot < len(r.R) && r.R[it.Dot] == tok {
			s.add(eItem{it.Rule, it.Dot + 1, it.Origin})
		}
	}
	if len(s.items) == 0 {
		return nil, false
	}
	out = append(append([]*ESet(nil), chart...), s)
	e.finish(out, len(out)-1)
	return out, true
}

// Accepts reports whether the prefix read so far is a sentence.
func (e *Earley) Accepts(chart []*ESet) bool {
	return chart[len(chart)-1].has[eItem{0, 1, 0}]
}

// CanShift reports whether tok can follow the prefix read so far.
func (e *Earley) CanShift(chart []*ESet, tok int) bool {
	for _, it := range chart[len(chart)-1].items {
		r := e.g.Rules[it.Rule]
		if it.Dot < len(r.R) && r.R[it.Dot] == tok {
			return true
		}
	}
	return false
}

// Member decides membership of a whole token string.
func (e *Earley) Member(toks []int) bool {
	ch := e.Start()
	for _, t := range toks {
		var ok bool
		ch, ok = e.Step(ch, t)
		if !ok {
			return false
		}
	}
	return e.Accepts(ch)
}
