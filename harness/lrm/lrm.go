// Package lrm is the abstract LR driver (the model). It executes yaccgo's own
// table data with exactly the control flow of the generated driver text
// (Builder/GoCodeTemplate.go: Parser/ReduceFunc/PushStateSym), so that a run
// of the model predicts verdict, reductions, lexer fetches and trace lines of
// a generated parser. The binding to the generated code is established by
// replaying model runs on compiled generated parsers (package gen).
package lrm

import (
	"fmt"

	parser "github.com/acekingke/yaccgo/Parser"
)

type Outcome int

const (
	Shifted  Outcome = iota // lookahead consumed, a new lookahead is fetched
	Accepted                // ACCEPT_ACTION met
	Rejected                // ERROR_ACTION met: the documented syntax error
	Crashed                 // the generated code would index out of range / take a garbage action
	Looped                  // more reductions than the fuel allows without consuming input
)

func (o Outcome) String() string {
	return [...]string{"shift", "accept", "syntax-error", "crash", "loop"}[o]
}

type Event struct {
	Kind  byte // 's' shift of the lookahead, 'r' reduce, 'g' goto push after a reduce
	Sym   int  // shifted / lhs symbol id
	State int  // state pushed ('s','g'); goto state announced ('r')
	Rule  int  // 'r'
	Look  int  // lookahead symbol id ('r')
}

type Machine struct {
	NStates  int
	NSyms    int
	Err, Acc int
	// Lookup is Action(state, symbol); ok=false means the generated code
	// would panic with an index error.
	Lookup  func(s, a int) (v int, ok bool)
	RuleLHS []int
	RuleLen []int
}

type Config struct {
	St  []int // state stack
	Sym []int // symbol stack (parallel; Sym[0] = 1, the end marker, as in ParserInit)
}

func Initial() Config { return Config{St: []int{0}, Sym: []int{1}} }

func (c Config) clone(extra int) Config {
	n := Config{St: make([]int, len(c.St), len(c.St)+extra), Sym: make([]int, len(c.Sym), len(c.Sym)+extra)}
	copy(n.St, c.St)
	copy(n.Sym, c.Sym)
	return n
}

type StepResult struct {
	Out    Outcome
	Events []Event
	Reds   []int // rules reduced, in order
	Detail string
}

// Step runs the driver loop from configuration c with lookahead la until the
// lookahead is shifted or the parse ends. c is not modified.
func (m *Machine) Step(c Config, la int, fuel int) (Config, StepResult) {
	cur := c.clone(4)
	var r StepResult
	for {
		if len(cur.St) == 0 {
			r.Out, r.Detail = Crashed, "stack empty (Parser returns nil)"
			return cur, r
		}
		s := cur.St[len(cur.St)-1]
		a, ok := m.Lookup(s, la)
		if !ok {
			r.Out, r.Detail = Crashed, fmt.Sprintf("Action(%d,%d) indexes out of range", s, la)
			return cur, r
		}
		switch {
		case a == m.Err:
			r.Out = Rejected
			return cur, r
		case a == m.Acc:
			r.Out = Accepted
			return cur, r
		case a > 0:
			cur.St = append(cur.St, a)
			cur.Sym = append(cur.Sym, la)
			r.Events = append(r.Events, Event{Kind: 's', Sym: la, State: a})
			r.Out = Shifted
			return cur, r
		default:
			rule := -a
			if rule <= 0 || rule >= len(m.RuleLHS) {
				r.Out, r.Detail = Crashed, fmt.Sprintf("action %d in state %d on %d is neither shift, reduce, error nor accept", a, s, la)
				return cur, r
			}
			n := m.RuleLen[rule]
			if n > len(cur.St)-1 {
				r.Out, r.Detail = Crashed, fmt.Sprintf("reduce by rule %d pops %d of %d stack entries", rule, n, len(cur.St))
				return cur, r
			}
			cur.St = cur.St[:len(cur.St)-n]
			cur.Sym = cur.Sym[:len(cur.Sym)-n]
			top := cur.St[len(cur.St)-1]
			g, ok := m.Lookup(top, m.RuleLHS[rule])
			if !ok {
				r.Out, r.Detail = Crashed, fmt.Sprintf("goto Action(%d,%d) indexes out of range", top, m.RuleLHS[rule])
				return cur, r
			}
			r.Reds = append(r.Reds, rule)
			r.Events = append(r.Events, Event{Kind: 'r', Rule: rule, State: g, Look: la}, Event{Kind: 'g', Sym: m.RuleLHS[rule], State: g})
			cur.St = append(cur.St, g)
			cur.Sym = append(cur.Sym, m.RuleLHS[rule])
			if g < 0 || g >= m.NStates {
				// the driver pushes the bogus state; the next lookup fails
				if g == m.Err || g == m.Acc || g < 0 {
					// next iteration: Lookup(g, la) is out of range for the
					// dense table; keep going so that Lookup decides
				}
			}
			fuel--
			if fuel <= 0 {
				r.Out, r.Detail = Looped, "reductions without consuming input exceed the fuel"
				return cur, r
			}
		}
	}
}

// ---------------------------------------------------------------------------
// machines over yaccgo's data

func rulesOf(v *parser.RootVistor) (lhs, n []int) {
	for _, r := range v.G.ProductoinRules {
		lhs = append(lhs, int(r.LeftPart.ID))
		n = append(n, len(r.RighPart))
	}
	return
}

// Dense executes LALR1.GTable the way the `-u` and TypeScript parsers do.
func Dense(v *parser.RootVistor) *Machine {
	t := v.GTable
	m := &Machine{NStates: len(t), NSyms: len(v.G.Symbols), Err: v.GenErrorCode(), Acc: v.GenAcceptCode()}
	m.RuleLHS, m.RuleLen = rulesOf(v)
	m.Lookup = func(s, a int) (int, bool) {
		if s < 0 || s >= len(t) || a < 0 || a >= len(t[s]) {
			return 0, false
		}
		return t[s][a], true
	}
	return m
}

// PackedLookup is a transliteration of the generated Action() for packed
// tables (Builder/GoCodeTemplate.go).
func PackedLookup(act, off, check, actdef, gotodef []int, nTerminals, errCode int) func(s, a int) (int, bool) {
	return func(s, a int) (int, bool) {
		if s < 0 || s >= len(off) {
			return 0, false
		}
		if off[s]+a < 0 {
			return errCode, true
		}
		if off[s]+a >= len(check) || check[off[s]+a] != s {
			if a > nTerminals {
				i := a - nTerminals - 1
				if i < 0 || i >= len(gotodef) {
					return 0, false
				}
				return gotodef[i], true
			}
			if s >= len(actdef) {
				return 0, false
			}
			return actdef[s], true
		}
		if off[s]+a >= len(act) {
			return 0, false
		}
		return act[off[s]+a], true
	}
}

// Packed executes the packed arrays the way the default Go parser does. It
// returns nil when yaccgo decided not to pack (the generated code then uses
// the dense table).
func Packed(v *parser.RootVistor) *Machine {
	if !v.NeedPacked {
		return nil
	}
	m := &Machine{NStates: len(v.GTable), NSyms: len(v.G.Symbols), Err: v.GenErrorCode(), Acc: v.GenAcceptCode()}
	m.RuleLHS, m.RuleLen = rulesOf(v)
	m.Lookup = PackedLookup(v.ActionTable, v.OffsetTable, v.CheckTable, v.ActionDef, v.GoToDef, len(v.G.VtSet), m.Err)
	return m
}
