// Package ygo is the in-process adapter to the real yaccgo packages: it runs
// the real front end and table construction on a text, with stdout captured,
// panics recovered, map order and fuel owned by the harness, and offers a
// name-based view of the result (never index based: yaccgo's numbering is an
// implementation detail).
package ygo

import (
	"fmt"
	"io"
	"os"
	"runtime"
	"strings"
	"sync"

	builder "github.com/acekingke/yaccgo/Builder"
	parser "github.com/acekingke/yaccgo/Parser"
	utils "github.com/acekingke/yaccgo/Utils"
	"github.com/acekingke/yaccgo/verifsched"

	"verifharness/gram"
	"verifharness/ref"
)

type Options struct {
	Order   verifsched.Choice
	Deviate map[int]verifsched.Choice
	Fuel    int64
	Record  bool   // record map-range visits
	Debug   bool   // utils.DebugFlags (the `debug` command)
	Unpack  bool   // -u
	Object  bool   // -o
	Dot     string // -g <path>: also draw the automaton (the external dot program is not installed; the graph text is printed)
}

type Result struct {
	Err   error
	Panic string // recovered panic text, "" if none
	// RuntimeErr: the panic value was a runtime.Error (nil dereference, index
	// out of range, ...), i.e. a crash rather than a diagnostic
	RuntimeErr bool
	Fuel       bool // fuel ran out (non-termination within the budget)
	Stdout     string
	Visits     []verifsched.Visit
	Ticks      int64
	V          *parser.RootVistor
}

func (r *Result) OK() bool { return r.Err == nil && r.Panic == "" && !r.Fuel && r.V != nil }

// Diag is the diagnostic text of a refused input.
func (r *Result) Diag() string {
	if r.Fuel {
		return "FUEL"
	}
	if r.Panic != "" {
		return "panic: " + r.Panic
	}
	if r.Err != nil {
		return "error: " + r.Err.Error()
	}
	return ""
}

var (
	capMu   sync.Mutex
	capFile *os.File
)

// Capture runs f with os.Stdout redirected to a scratch file and returns
// what was printed. No pipes and no reader goroutines are involved, so the
// Go runtime's deadlock detector stays usable as a hang oracle.
func Capture(f func()) string {
	capMu.Lock()
	defer capMu.Unlock()
	if capFile == nil {
		dir := os.Getenv("VERIF_SCRATCH")
		if dir == "" {
			dir = os.TempDir()
		}
		var err error
		capFile, err = os.CreateTemp(dir, "stdout-*")
		if err != nil {
			panic(err)
		}
		os.Remove(capFile.Name())
	}
	capFile.Truncate(0)
	capFile.Seek(0, io.SeekStart)
	old := os.Stdout
	os.Stdout = capFile
	func() {
		defer func() { os.Stdout = old }()
		f()
	}()
	capFile.Seek(0, io.SeekStart)
	b, _ := io.ReadAll(capFile)
	return string(b)
}

func setFlags(o Options) {
	utils.DebugFlags = o.Debug
	utils.PackFlags = !o.Unpack
	utils.ObjectMode = o.Object
	utils.HttpDebug = false
	utils.DebugPackTab = false
	utils.GenDotGraph = o.Dot != ""
	if o.Dot != "" {
		utils.GenDotPath = o.Dot
	}
}

func guarded(o Options, f func()) (res Result) {
	setFlags(o)
	verifsched.Begin(o.Order, o.Deviate, o.Fuel, o.Record)
	res.Stdout = Capture(func() {
		defer func() {
			if p := recover(); p != nil {
				if _, ok := p.(verifsched.FuelExhausted); ok {
					res.Fuel = true
				} else {
					res.Panic = fmt.Sprint(p)
					if _, isRT := p.(runtime.Error); isRT {
						res.RuntimeErr = true
					}
					if res.Panic == "" {
						res.Panic = "(empty panic)"
					}
				}
			}
		}()
		f()
	})
	res.Visits, res.Ticks = verifsched.End()
	setFlags(Options{})
	return res
}

// Build runs parser.ParseAndBuild on text.
func Build(text string, o Options) *Result {
	var w *parser.Walker
	var err error
	res := guarded(o, func() { w, err = parser.ParseAndBuild(text) })
	res.Err = err
	if w != nil && res.Panic == "" && !res.Fuel {
		res.V, _ = w.VistorNode.(*parser.RootVistor)
	}
	return &res
}

// Generate runs the real code generator ("go" or "typescript") writing to path.
func Generate(lang, text, path string, o Options) *Result {
	var err error
	res := guarded(o, func() {
		if lang == "typescript" {
			err = builder.TsGenFromString(text, path)
		} else {
			err = builder.TemplateGenFromString(text, path)
		}
	})
	res.Err = err
	return &res
}

// ---------------------------------------------------------------------------
// name-based view

// View relates yaccgo's numbering to the reference grammar's.
type View struct {
	V *parser.RootVistor
	G *ref.Grammar
	// SymToRef maps a yaccgo symbol id to the reference symbol id
	// (G.EOF() for "$"); RefToSym is the inverse (-1 where absent).
	SymToRef []int
	RefToSym []int
	NStates  int
	Err, Acc int
	// RulesDiffer: the symbols map one to one but the rule list yaccgo works on is not the rule list of
	// the specification (NewView then returns the view TOGETHER with an error): token-level behaviour can
	// still be compared with the specification's language, rule numbers cannot
	RulesDiffer bool
}

// NewView maps symbols by name and checks that the rule list yaccgo works on
// is the rule list of the reference grammar, in order. A mismatch is returned
// as an error text (it is a violation of "the grammar file is read
// faithfully", reported by whichever check meets it).
func NewView(v *parser.RootVistor, g *ref.Grammar) (*View, error) {
	vw := &View{V: v, G: g}
	syms := v.G.Symbols
	vw.SymToRef = make([]int, len(syms))
	vw.RefToSym = make([]int, len(g.Names)+1)
	for i := range vw.RefToSym {
		vw.RefToSym[i] = -1
	}
	for i, s := range syms {
		if int(s.ID) != i {
			return nil, fmt.Errorf("symbol %q has ID %d at position %d", s.Name, s.ID, i)
		}
		var rid int
		switch {
		case i == 0:
			rid = g.ID("$accept")
		case i == 1:
			rid = g.EOF()
		default:
			name := s.Name
			if strings.HasPrefix(name, "$operator") {
				c := name[len("$operator"):]
				if c == "'" {
					name = `'\''`
				} else {
					name = "'" + c + "'"
				}
			}
			rid = g.ID(name)
			if rid < 0 {
				return nil, fmt.Errorf("yaccgo has a symbol %q that the specification does not contain", s.Name)
			}
			if g.IsNT[rid] != s.IsNonTerminator {
				return nil, fmt.Errorf("symbol %q: nonterminal=%v in yaccgo, %v in the specification", s.Name, s.IsNonTerminator, g.IsNT[rid])
			}
		}
		vw.SymToRef[i] = rid
		if vw.RefToSym[rid] != -1 {
			return nil, fmt.Errorf("two yaccgo symbols map to %q", s.Name)
		}
		vw.RefToSym[rid] = i
	}
	for rid := range g.Names {
		if vw.RefToSym[rid] == -1 {
			return nil, fmt.Errorf("specification symbol %q is missing in yaccgo", g.Names[rid])
		}
	}
	vw.NStates = len(v.G.LR0.LR0Closure)
	vw.Err = v.GenErrorCode()
	vw.Acc = v.GenAcceptCode()
	rules := v.G.ProductoinRules
	if len(rules) != len(g.Rules) {
		vw.RulesDiffer = true
		return vw, fmt.Errorf("yaccgo has %d rules, the specification %d", len(rules)-1, len(g.Rules)-1)
	}
	for i, r := range rules {
		rr := g.Rules[i]
		same := vw.SymToRef[r.LeftPart.ID] == rr.L && len(r.RighPart) == len(rr.R)
		if same {
			for j, s := range r.RighPart {
				if vw.SymToRef[s.ID] != rr.R[j] {
					same = false
				}
			}
		}
		if !same {
			vw.RulesDiffer = true
			return vw, fmt.Errorf("rule %d differs: yaccgo has %s, the specification %s", i, ruleText(v, i), g.RuleString(i))
		}
	}
	vw.NStates = len(v.G.LR0.LR0Closure)
	vw.Err = v.GenErrorCode()
	vw.Acc = v.GenAcceptCode()
	return vw, nil
}

func ruleText(v *parser.RootVistor, i int) string {
	r := v.G.ProductoinRules[i]
	s := r.LeftPart.Name + " ->"
	for _, x := range r.RighPart {
		s += " " + x.Name
	}
	return s
}

// StateItems returns yaccgo's item set of state i as reference items.
func (vw *View) StateItems(i int) []ref.Item {
	ic := vw.V.G.LR0.LR0Closure[i]
	out := make([]ref.Item, 0, len(ic.Items))
	for _, it := range ic.Items {
		out = append(out, ref.Item{Rule: it.RuleIndex, Dot: it.Dot})
	}
	return out
}

// SpecName returns the specification-level name of yaccgo symbol id.
func (vw *View) SpecName(id int) string {
	if id == 1 {
		return "$end"
	}
	return vw.G.Names[vw.SymToRef[id]]
}

var _ = gram.IsLit

// OK2 is OK for results of Generate (no visitor is returned there).
func (r *Result) OK2() bool { return r.Err == nil && r.Panic == "" && !r.Fuel }
