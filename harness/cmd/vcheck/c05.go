package main

import (
	"encoding/json"
	"fmt"

	parser "github.com/acekingke/yaccgo/Parser"
	utils "github.com/acekingke/yaccgo/Utils"
	"github.com/acekingke/yaccgo/verifsched"

	"verifharness/gen"
	"verifharness/gram"
	"verifharness/lrm"
	"verifharness/ygo"
)

// C05: table compression is lossless.

func init() {
	register(&CheckDef{
		ID:    "C05",
		Level: "exploration",
		Rule: "(a) utils.PackTable/UnPackTable on EVERY integer matrix of the stated shapes and value alphabets (lookup through offset/check must return the cell, 0 where the cell is 0); " +
			"(b) for every usable grammar of the bounded classes + families, EVERY (state, symbol) cell looked up through the packed arrays with the default-action/default-goto vectors (transliteration of the generated Action()) must equal the dense table cell, under canonical and reversed map order; " +
			"(c) generated packed vs -u parsers on the conformance corpus (Action() dump of every cell, all strings up to the bound); non-trivial = matrix with >= 2 non-zero cells / grammar whose table was packed; distinct = distinct matrices / rule sets",
		Assumptions: []string{
			"PackedLookup in harness/lrm is a transliteration of the generated Action(); part (c) binds it to the generated code by dumping Action() for every cell from compiled parsers",
		},
		Work: func(w *Worker) {
			c05Matrices(w)
			c05WideMatrices(w)
			c05MatrixHistories(w)
			forEachGrammar(w, classesFor(w), false, true, func(idx int64, c *GCase) { c05Eval(w, c) })
			genPhase(w, "C05")
		},
		Replay: func(w *Worker, raw json.RawMessage) {
			var c GCase
			if json.Unmarshal(raw, &c) != nil {
				return
			}
			switch {
			case c.Origin == "matrix":
				var m [][]int
				json.Unmarshal(c.Extra, &m)
				c05OneMatrix(w, m)
			case c.Origin == "matrix-history":
				var ms [][][]int
				json.Unmarshal(c.Extra, &ms)
				if len(ms) == 2 {
					c05MatrixPair(w, ms[0], ms[1])
				}
			case c.Origin == "grammar-history" && c.Spec != nil:
				var later gram.Spec
				if json.Unmarshal(c.Extra, &later) == nil {
					c05Prev = nil
					c05Eval(w, &GCase{Origin: "replay", Spec: c.Spec})
					c05Eval(w, &GCase{Origin: "replay", Spec: &later})
				}
			case c.Origin == "gen":
				genReplay(w, "C05", &c)
			case c.Spec != nil:
				c05Eval(w, &c)
			}
		},
	})
}

type matShape struct{ rows, cols, vals int }

func c05Matrices(w *Worker) {
	shapes := []matShape{{1, 4, 3}, {2, 3, 3}, {2, 4, 3}, {3, 3, 3}, {2, 6, 2}, {3, 4, 2}}
	if w.Thorough() {
		shapes = append(shapes, matShape{3, 4, 3}, matShape{4, 4, 2}, matShape{2, 5, 3}, matShape{1, 8, 3})
	}
	idx := int64(1) << 42
	for _, sh := range shapes {
		n := sh.rows * sh.cols
		total := 1
		for i := 0; i < n; i++ {
			total *= sh.vals
		}
		for code := 0; code < total; code++ {
			if w.Mine(idx) {
				m := make([][]int, sh.rows)
				c := code
				for r := range m {
					m[r] = make([]int, sh.cols)
					for j := range m[r] {
						v := c % sh.vals
						c /= sh.vals
						// values: 0, 7, -3 (a shift-like and a reduce-like entry)
						m[r][j] = []int{0, 7, -3}[v]
					}
				}
				if code%4096 == 0 {
					w.Begin(idx, &GCase{Origin: "matrix", Extra: mustJSON(m)})
				}
				c05OneMatrix(w, m)
			}
			idx++
		}
	}
}

// c05WideMatrices: every 2x3 and 3x3 matrix over {0, 7, -3} with its three columns spread over a
// row of 72 cells (tables of real grammars have one column per symbol: more than 64 is common).
func c05WideMatrices(w *Worker) {
	idx := int64(1) << 41
	placements := [][3]int{{0, 64, 65}, {1, 63, 64}, {0, 1, 70}, {62, 63, 64}, {5, 69, 71}}
	for _, rows := range []int{2, 3} {
		n := rows * 3
		total := 1
		for i := 0; i < n; i++ {
			total *= 3
		}
		for code := 0; code < total; code++ {
			for _, pl := range placements {
				if w.Mine(idx) {
					m := make([][]int, rows)
					c := code
					for r := range m {
						m[r] = make([]int, 72)
						for j := 0; j < 3; j++ {
							m[r][pl[j]] = []int{0, 7, -3}[c%3]
							c /= 3
						}
					}
					if idx%4096 == 0 {
						w.Begin(idx, &GCase{Origin: "matrix", Extra: mustJSON(m)})
					}
					w.Count("wide_matrices", 1)
					c05OneMatrix(w, m)
				}
				idx++
			}
		}
	}
}

// c05MatrixHistories: the result of one PackTable call must still read back as its matrix after a
// later call (a program that generates more than one parser keeps the earlier arrays): every ordered
// pair (m1, m2) with m1 a 2x3 matrix over {0, 7, -3} and m2 a 1x4 matrix over {0, 7, -3} or a 2x3
// matrix over {0, 7}.
func c05MatrixHistories(w *Worker) {
	mk := func(rows, cols, vals, code int) [][]int {
		m := make([][]int, rows)
		for r := range m {
			m[r] = make([]int, cols)
			for j := range m[r] {
				m[r][j] = []int{0, 7, -3}[code%vals]
				code /= vals
			}
		}
		return m
	}
	var seconds [][][]int
	for code := 0; code < 81; code++ {
		seconds = append(seconds, mk(1, 4, 3, code))
	}
	for code := 0; code < 64; code++ {
		seconds = append(seconds, mk(2, 3, 2, code))
	}
	idx := int64(1) << 40
	for code := 0; code < 729; code++ {
		m1 := mk(2, 3, 3, code)
		for _, m2 := range seconds {
			if w.Mine(idx) {
				if idx%4096 == 0 {
					w.Begin(idx, &GCase{Origin: "matrix-history", Extra: mustJSON([][][]int{m1, m2})})
				}
				c05MatrixPair(w, m1, m2)
			}
			idx++
		}
	}
}

func c05MatrixPair(w *Worker, m1, m2 [][]int) {
	w.Count("evaluations", 1)
	w.Count("matrix_histories", 1)
	cp := func(m [][]int) [][]int {
		o := make([][]int, len(m))
		for i := range m {
			o[i] = append([]int(nil), m[i]...)
		}
		return o
	}
	var un [][]int
	var pan interface{}
	func() {
		defer func() { pan = recover() }()
		verifsched.Begin(verifsched.Choice{}, nil, 5_000_000, false)
		T, D, C := utils.PackTable(cp(m1))
		utils.PackTable(cp(m2))
		un = utils.UnPackTable(len(m1), len(m1[0]), T, D, C)
		verifsched.End()
	}()
	if pan != nil {
		return // single calls are judged by c05OneMatrix
	}
	if fmt.Sprint(un) != fmt.Sprint(m1) {
		w.Violate("C05|packtable-result-changed-by-later-call|"+fmt.Sprint(m1, m2), fmt.Sprintf("T, D, C := PackTable(%v); PackTable(%v); UnPackTable(T, D, C) = %v", m1, m2, un),
			&GCase{Origin: "matrix-history", Extra: mustJSON([][][]int{m1, m2})}, nil)
	}
}

func c05OneMatrix(w *Worker, m [][]int) {
	w.Count("evaluations", 1)
	w.Count("matrices", 1)
	in := make([][]int, len(m))
	nz := 0
	for i := range m {
		in[i] = append([]int(nil), m[i]...)
		for _, v := range m[i] {
			if v != 0 {
				nz++
			}
		}
	}
	key := fmt.Sprint(m)
	if nz >= 2 {
		w.Distinct(key)
	}
	var T, D, C []int
	var un [][]int
	var pan interface{}
	func() {
		defer func() { pan = recover() }()
		verifsched.Begin(verifsched.Choice{}, nil, 5_000_000, false)
		T, D, C = utils.PackTable(in)
		un = utils.UnPackTable(len(m), len(m[0]), T, D, C)
		verifsched.End()
	}()
	c := &GCase{Origin: "matrix", Extra: mustJSON(m)}
	if pan != nil {
		w.Violate("C05|packtable-panic|"+key, fmt.Sprintf("PackTable(%v) panics: %v", m, pan), c, nil)
		return
	}
	for i := range m {
		for j := range m[i] {
			// lookup as the generated code does it
			got := 0
			k := D[i] + j
			if k >= 0 && k < len(C) && C[k] == i {
				if k >= len(T) {
					w.Violate("C05|packtable-short|"+key, fmt.Sprintf("PackTable(%v): check vector longer than value vector", m), c, nil)
					return
				}
				got = T[k]
			}
			if got != m[i][j] || un[i][j] != m[i][j] {
				w.Violate("C05|packtable-lossy|"+key, fmt.Sprintf("PackTable(%v): cell [%d][%d] = %d reads back as %d (UnPackTable: %d); T=%v D=%v C=%v", m, i, j, m[i][j], got, un[i][j], T, D, C), c,
					map[string]interface{}{"T": T, "D": D, "C": C})
				return
			}
		}
	}
}

// c05Prev is the last packed table this worker built (with its grammar): after the next grammar has
// been built, every cell of the earlier one is looked up again.
var c05Prev *struct {
	c *GCase
	v *parser.RootVistor
}

func c05Recheck(w *Worker, later *GCase) {
	p := c05Prev
	if p == nil {
		return
	}
	pm := lrm.Packed(p.v)
	if pm == nil {
		return
	}
	w.Count("earlier_tables_rechecked_after_a_later_build", 1)
	for s, row := range p.v.GTable {
		for a, want := range row {
			got, ok := pm.Lookup(s, a)
			if !ok || got != want {
				key := p.c.Spec.Key()
				c05Prev = nil
				w.Violate("C05|packed-cell-changed-by-later-build|"+key, fmt.Sprintf("grammar [%s]: after a parser for [%s] was built in the same process, cell (state %d, symbol %s) of the EARLIER grammar is %d in its table and %d through its packed arrays (index ok=%v)", key, later.Spec.Key(), s, p.v.G.Symbols[a].Name, want, got, ok),
					&GCase{Origin: "grammar-history", Spec: p.c.Spec, Extra: mustJSON(later.Spec)}, nil)
				return
			}
		}
	}
}

func c05Eval(w *Worker, c *GCase) {
	w.Count("evaluations", 1)
	g := refOf(c)
	if !g.Usable() {
		w.Count("skipped_reference_says_unusable", 1)
		return
	}
	key := c.Spec.Key()
	text := c.Spec.Render()
	var keep *parser.RootVistor
	for _, ord := range []verifsched.Choice{{Kind: verifsched.Canon}, {Kind: verifsched.Reverse}} {
		res := ygo.Build(text, ygo.Options{Fuel: buildFuel, Order: ord})
		if !res.OK() {
			w.Count("skipped_yaccgo_refused_usable_grammar", 1)
			return
		}
		v := res.V
		c05Recheck(w, c)
		keep = v
		pm := lrm.Packed(v)
		if pm == nil {
			w.Count("tables_not_packed", 1)
			continue
		}
		w.Count("tables_packed", 1)
		w.Distinct(key)
		for s, row := range v.GTable {
			for a, want := range row {
				w.Count("cells_compared", 1)
				got, ok := pm.Lookup(s, a)
				if (!ok || got != want) && c05GeneratedAgrees(w, c, v.GTable) {
					// the transliteration of Action() in harness/lrm no longer matches the generated code,
					// and the generated packed parser answers every cell like the table: not a violation
					w.Count("transliteration_stale_generated_code_correct", 1)
					return
				}
				if !ok || got != want {
					ordName := "canonical"
					if ord.Kind == verifsched.Reverse {
						ordName = "reversed"
					}
					w.Violate("C05|packed-cell-differs|"+key, fmt.Sprintf("grammar [%s] (%s map order): cell (state %d, symbol %s) is %d in the table and %d through the packed arrays (index ok=%v)", key, ordName, s, v.G.Symbols[a].Name, want, got, ok), c,
						map[string]interface{}{"grammar_text": text, "state": s, "symbol": v.G.Symbols[a].Name, "dense": want, "packed": got,
							"ActionTable": v.ActionTable, "OffsetTable": v.OffsetTable, "CheckTable": v.CheckTable, "ActionDef": v.ActionDef, "GoToDef": v.GoToDef, "GTable": v.GTable})
					return
				}
			}
		}
	}
	if keep != nil {
		c05Prev = &struct {
			c *GCase
			v *parser.RootVistor
		}{c, keep}
	}
	w.SampleEvery(w.Out.Counters["evaluations"], 4999, func() interface{} { return map[string]interface{}{"grammar": key} })
}

// c05GeneratedAgrees builds the real packed Go parser for the grammar and asks
// its Action() for every cell; it reports whether all answers equal the table.
func c05GeneratedAgrees(w *Worker, c *GCase, table [][]int) bool {
	b, err := gen.NewBatch(w.Scratch, fmt.Sprintf("c05confirm-%d", w.Shard))
	if err != nil {
		return false
	}
	defer b.Remove()
	d := gen.Decorate(c.Spec, nil, gen.NoAction)
	it := b.Add("cf0", gen.Go, d)
	if it.GenDiag != "" || b.BuildGo() != nil || it.BuildErr != "" {
		return false
	}
	agrees := false
	nsym := 0
	if len(table) > 0 {
		nsym = len(table[0])
	}
	b.RunGo([]gen.Job{{Pkg: "cf0", NStates: len(table), NSyms: nsym}}, func(o *gen.Out) {
		if o.Kind == "dump" && o.Err == "" {
			agrees = fmt.Sprint(o.Dump) == fmt.Sprint(table)
		}
	})
	return agrees
}
