package main

import (
	"bytes"
	"context"
	"encoding/json"
	"fmt"
	"os"
	"path/filepath"
	"strings"
	"syscall"
	"time"

	"verifharness/evid"
	"verifharness/gen"
	"verifharness/gram"
	"verifharness/ygo"
)

// C19: a failed generation never damages an existing output file.

func init() {
	register(&CheckDef{
		ID:    "C19",
		Level: "fault_enumeration",
		Rule: "fault enumeration over corpus grammar files (repository examples, rendered and action-decorated families): every byte prefix; at every token position: deletion, duplication and replacement by each fragment of the lexical alphabet (unbalanced braces, comments, quotes, stray directives); semantic faults built from the specification at every applicable place: a right-hand-side symbol replaced by an undefined name, each nonterminal made unproductive, %prec / %left of an undeclared token, $n with n in {0, |rhs|+1, 99} in each action, $$ / $n of an untagged symbol, %type of a ruleless name, missing %start; x {go, -u, -o, typescript}; the output path holds sentinel bytes beforehand; in-process for the whole space, through the real CLI binary (exit status, bytes, inode) for a fixed stride; " +
			"oracle: the run fails => the file is byte-identical (same inode); the run succeeds => the file ends with the program section and has a case for every rule; evaluations = generator runs; non-trivial = runs that fail; distinct = distinct (text, variant)",
		Assumptions: []string{
			"inputs on which generation does not terminate within the fuel are counted and left to C13",
			"a failure is an error return or a panic of the generator (the CLI turns both into a non-zero exit status)",
		},
		Work: func(w *Worker) { c19Work(w) },
		Replay: func(w *Worker, raw json.RawMessage) {
			var c c19Case
			if json.Unmarshal(raw, &c) == nil {
				c19Eval(w, &c, true)
			}
		},
	})
}

type c19Case struct {
	Origin  string `json:"origin"`
	Text    string `json:"text"`
	Variant string `json:"variant"`
	// Epilogue: the program section of Text when the harness knows it independently of yaccgo
	// (it contains the section mark %% inside a comment)
	Epilogue string `json:"epilogue,omitempty"`
}

var c19Variants = []string{gen.Go, gen.GoU, gen.GoO, gen.TS}

// semanticFaults builds faulty texts from a specification.
func semanticFaults(name string, s *gram.Spec) []gram.Named2 {
	var out []gram.Named2
	d := gen.Decorate(s, nil, gen.UseAll)
	render := func(kind string, sp *gram.Spec) {
		dd := *d
		dd.Spec = sp
		out = append(out, gram.Named2{Name: kind + ":" + name, Text: dd.Source(gen.Go, "p")})
	}
	clone := func() *gram.Spec {
		c := *d.Spec
		c.Rules = append([]gram.Rule(nil), d.Spec.Rules...)
		for i := range c.Rules {
			c.Rules[i].R = append([]string(nil), c.Rules[i].R...)
		}
		c.Tokens = append([]gram.TokDecl(nil), d.Spec.Tokens...)
		c.Prec = append([]gram.PrecLevel(nil), d.Spec.Prec...)
		c.Types = append([]gram.TypeDecl(nil), d.Spec.Types...)
		return &c
	}
	for ri, r := range d.Spec.Rules {
		for si := range r.R {
			c := clone()
			c.Rules[ri].R[si] = "Undefined_Sym"
			c.Rules[ri].Action = " rec(1) "
			render("undefined-symbol", c)
		}
		for _, n := range []int{0, len(r.R) + 1, 99} {
			c := clone()
			c.Rules[ri].Action = fmt.Sprintf(" $$ = hs(1, $%d); rec(1) ", n)
			render(fmt.Sprintf("dollar-%d-of-%d", n, len(r.R)), c)
		}
		c := clone()
		c.Rules[ri].Prec = "TUNDECLARED"
		render("prec-of-undeclared-token", c)
	}
	for _, nt := range d.Spec.Nonterminals() {
		c := clone()
		var keep []gram.Rule
		for _, r := range c.Rules {
			if r.L != nt {
				keep = append(keep, r)
			}
		}
		keep = append(keep, gram.Rule{L: nt, R: []string{nt, nt}, Action: " rec(1) ", HasAct: true})
		c.Rules = keep
		render("unproductive-"+nt, c)
	}
	c := clone()
	c.Prec = append(c.Prec, gram.PrecLevel{Assoc: "left", Toks: []string{"TUNDECLARED"}})
	// %left of a token that has no %token line is a legal way to declare it: expected to succeed
	render("left-of-new-token", c)
	c = clone()
	c.Types = append(c.Types, gram.TypeDecl{Tag: "s", Names: []string{"Ruleless"}})
	render("type-of-ruleless-name", c)
	c = clone()
	c.Start = ""
	render("missing-start", c)
	c = clone()
	c.Types = nil
	render("actions-on-untagged-nonterminals", c)
	// two tokens declared with one number
	c = clone()
	c.LateTokens = append(c.LateTokens, gram.TokDecl{Name: "TDUP1", Num: 777}, gram.TokDecl{Name: "TDUP2", Num: 777})
	render("two-tokens-one-number", c)
	return out
}

func c19Work(w *Worker) {
	var idx int64
	knownEpilogue := ""
	emit := func(origin, text string) {
		for _, v := range c19Variants {
			if w.Mine(idx) {
				c := &c19Case{Origin: origin, Text: text, Variant: v, Epilogue: knownEpilogue}
				if idx%16 == 0 {
					w.Begin(idx, c)
				}
				cli := (idx/int64(w.N))%211 == 0 || strings.HasPrefix(origin, "whole:")
				c19Eval(w, c, cli)
				if idx%64 == 0 {
					w.Recycle(idx + 1)
				}
			}
			idx++
		}
	}
	files := corpusFiles()
	for fi, f := range files {
		step := 1
		if !w.Thorough() && len(f.Text) > 600 {
			step = 7
		}
		if f.NoEdits {
			// only the whole text (through the library and through the command-line tool)
			if !strings.HasPrefix(f.Name, "exponential-automaton") {
				knownEpilogue = f.Epilogue
				emit("whole:"+f.Name, f.Text)
				knownEpilogue = ""
			}
			continue
		}
		for n := 0; n <= len(f.Text); n += step {
			if n == len(f.Text) {
				knownEpilogue = f.Epilogue // the whole, unmodified file
			}
			emit("prefix:"+f.Name, f.Text[:n])
			knownEpilogue = ""
		}
		if len(f.Text)%step != 0 {
			knownEpilogue = f.Epilogue
			emit("whole:"+f.Name, f.Text)
			knownEpilogue = ""
		}
		toks := splitTokens(f.Text)
		stride := 1
		if !w.Thorough() && len(toks) > 150 {
			stride = 5
		}
		for p := 0; p < len(toks); p += stride {
			if strings.TrimSpace(toks[p]) == "" {
				continue
			}
			edits := []string{"", toks[p] + " " + toks[p]}
			if w.Thorough() || fi%3 == 0 {
				edits = append(edits, fragments...)
			} else {
				edits = append(edits, "{", "}", "/*", "'", "\"", "%%", "%{", "%}", "$", "@")
			}
			for _, e := range edits {
				emit("edit:"+f.Name, strings.Join(toks[:p], "")+e+strings.Join(toks[p+1:], ""))
			}
		}
	}
	for _, n := range gram.Families() {
		for _, f := range semanticFaults(n.Name, n.Spec) {
			emit(f.Name, f.Text)
		}
	}
}

// the file that exists before yaccgo runs is LONGER than anything yaccgo
// writes here, so an output that is written over it without truncation shows
var sentinel = strings.Repeat("SENTINEL: this file existed before yaccgo ran\n", 700)

func c19Eval(w *Worker, c *c19Case, cli bool) {
	w.Count("evaluations", 1)
	path := filepath.Join(w.Scratch, fmt.Sprintf("c19-%d-out.txt", os.Getpid()))
	os.WriteFile(path, []byte(sentinel), 0o644)
	defer os.Remove(path)
	inoBefore := inode(path)
	lang := "go"
	if c.Variant == gen.TS {
		lang = "typescript"
	}
	text := c.Text
	if c.Variant == gen.TS {
		// same faults, TypeScript flavoured prologue is not needed: the generator does not look at the code parts
	}
	res := ygo.Generate(lang, text, path, ygo.Options{Fuel: textFuel, Unpack: gen.IsUnpack(c.Variant), Object: gen.IsObject(c.Variant)})
	if res.Fuel {
		w.Count("skipped_not_terminating", 1)
		return
	}
	key := c.Variant + "|" + c.Origin + "|" + evidHash(c.Text)
	after, _ := os.ReadFile(path)
	bad := func(kind, msg string) {
		w.Violate("C19|"+kind+"|"+key, fmt.Sprintf("%s (%s, %s): %s", kind, c.Variant, c.Origin, msg), c, map[string]interface{}{"text": c.Text, "diag": res.Diag()})
	}
	failed := !res.OK2()
	if failed {
		w.Count("failing_runs", 1)
		w.Distinct(key)
		w.SetAdd("failure_kinds", failureKind(res.Diag()))
		if !bytes.Equal(after, []byte(sentinel)) {
			bad("file-damaged", fmt.Sprintf("generation failed (%s) but the existing output file changed: now %d bytes starting %q", res.Diag(), len(after), clip(string(after), 60)))
			return
		}
		if inode(path) != inoBefore {
			bad("file-replaced", "generation failed but the output path now refers to a different file")
			return
		}
	} else {
		w.Count("succeeding_runs", 1)
		if c.Epilogue != "" && !strings.HasSuffix(string(after), c.Epilogue) {
			bad("file-incomplete", "generation succeeded but the file does not end with the program section of the grammar file (which contains the characters %% in a comment)")
			return
		}
		b := ygo.Build(text, ygo.Options{Fuel: textFuel})
		if b.OK() {
			epi := b.V.GetCodeCopy()
			if !strings.HasSuffix(string(after), epi) {
				bad("file-incomplete", "generation succeeded but the file does not end with the program section")
				return
			}
			for i := 1; i < len(b.V.G.ProductoinRules); i++ {
				if !strings.Contains(string(after), fmt.Sprintf("case %d:", i)) {
					bad("file-incomplete", fmt.Sprintf("generation succeeded but the file has no case for rule %d", i))
					return
				}
			}
		}
		if bytes.HasPrefix(after, []byte(sentinel)) {
			bad("file-not-written", "generation reports success but the old content is still there")
			return
		}
		// other pre-existing files: one of exactly the size of the new output with other content
		// (a stale parser of the same length), a short one, and the output itself
		if strings.HasPrefix(c.Origin, "whole:") || w.Out.Counters["succeeding_runs"]%16 == 0 {
			stale := make([]byte, len(after))
			for i, b := range after {
				stale[i] = b ^ 1
			}
			for _, pre := range []struct {
				what string
				data []byte
			}{{"a file of the same size with other content", stale}, {"a 10-byte file", []byte("0123456789")}, {"the same output", after}} {
				os.WriteFile(path, pre.data, 0o644)
				res2 := ygo.Generate(lang, text, path, ygo.Options{Fuel: textFuel, Unpack: gen.IsUnpack(c.Variant), Object: gen.IsObject(c.Variant)})
				again, _ := os.ReadFile(path)
				w.Count("regenerations_over_other_files", 1)
				if !res2.OK2() || !bytes.Equal(again, after) {
					bad("file-depends-on-previous-content", fmt.Sprintf("generating over %s does not give the output that generating over the %d-byte sentinel gives (%d bytes vs %d bytes, first difference: %s)", pre.what, len(sentinel), len(again), len(after), firstDiff(after, again)))
					return
				}
			}
		}
	}
	if cli {
		c19CLI(w, c, failed, after, bad)
	}
	w.SampleEvery(w.Out.Counters["evaluations"], 20011, func() interface{} {
		return map[string]interface{}{"origin": c.Origin, "variant": c.Variant, "failed": failed, "diag": clip(res.Diag(), 120), "text_tail": tailStr(c.Text, 80)}
	})
}

func failureKind(d string) string {
	d = clip(d, 60)
	// drop positions so that kinds stay few
	var b strings.Builder
	for _, r := range d {
		if r >= '0' && r <= '9' {
			continue
		}
		b.WriteRune(r)
	}
	return b.String()
}

func evidHash(s string) string {
	h := uint64(14695981039346656037)
	for i := 0; i < len(s); i++ {
		h ^= uint64(s[i])
		h *= 1099511628211
	}
	return fmt.Sprintf("%016x", h)
}

func inode(p string) uint64 {
	var st syscall.Stat_t
	if syscall.Stat(p, &st) != nil {
		return 0
	}
	return st.Ino
}

// c19CLI repeats one case through the real binary.
func c19CLI(w *Worker, c *c19Case, expectFail bool, libOut []byte, bad func(kind, msg string)) {
	if _, err := nativeCLI(w); err != nil {
		w.Note("INTERNAL: cannot build the native CLI: " + err.Error())
		return
	}
	dir, err := os.MkdirTemp(w.Scratch, "c19cli-")
	if err != nil {
		return
	}
	defer os.RemoveAll(dir)
	in, outp := filepath.Join(dir, "in.y"), filepath.Join(dir, "out.txt")
	os.WriteFile(in, []byte(c.Text), 0o644)
	os.WriteFile(outp, []byte(sentinel), 0o644)
	if w.Out.Counters["cli_runs"]%2 == 1 {
		// every second run finds a write-protected file at the output path (generated files are often kept
		// read-only): a failing run must leave it where it is all the same
		os.Chmod(outp, 0o444)
		w.Count("cli_runs_over_a_write_protected_file", 1)
	}
	ino := inode(outp)
	flags := map[string][]string{gen.Go: {"go"}, gen.GoU: {"-u", "go"}, gen.GoO: {"-o", "go"}, gen.GoOU: {"-o", "-u", "go"}, gen.TS: {"typescript"}}
	args := append([]string{"generate"}, flags[c.Variant]...)
	args = append(args, in, outp)
	ctx, cancel := context.WithTimeout(context.Background(), 120*time.Second)
	defer cancel()
	cmd := evid.Guarded(ctx, 60, dir, nil, nativeBin, args...)
	err = cmd.Run()
	w.Count("cli_runs", 1)
	after, _ := os.ReadFile(outp)
	exitFail := err != nil
	if exitFail != expectFail {
		bad("cli-disagrees", fmt.Sprintf("in-process generation failed=%v but the CLI exit status says failed=%v", expectFail, exitFail))
		return
	}
	if exitFail {
		w.Count("cli_failing_runs", 1)
		if !bytes.Equal(after, []byte(sentinel)) || inode(outp) != ino {
			bad("cli-file-damaged", "the CLI exited with an error but the existing output file changed")
		}
		return
	}
	// success: the file the command-line tool leaves must be complete, too (it reads the grammar file
	// itself; the in-process generator was handed the text)
	if c.Epilogue != "" && !strings.HasSuffix(string(after), c.Epilogue) {
		bad("cli-file-incomplete", fmt.Sprintf("the CLI reports success but its output (%d bytes) does not end with the program section of the grammar file (%d bytes)", len(after), len(c.Epilogue)))
		return
	}
	if !bytes.Equal(after, libOut) {
		bad("cli-output-differs", fmt.Sprintf("the CLI reports success but writes another file than the generator called in-process on the same text: %s", firstDiff(libOut, after)))
		return
	}
	// the same once more the way a user types it: relative paths, and the drawing option with a
	// picture in a subdirectory (whole files, Go and TypeScript)
	if strings.HasPrefix(c.Origin, "whole:") && (c.Variant == gen.Go || c.Variant == gen.TS) {
		os.WriteFile(outp, []byte(sentinel), 0o644)
		os.MkdirAll(filepath.Join(dir, "doc"), 0o755)
		args2 := append([]string{"generate", "-g", "doc/automaton.png"}, flags[c.Variant]...)
		args2 = append(args2, "in.y", "out.txt")
		ctx2, cancel2 := context.WithTimeout(context.Background(), 120*time.Second)
		defer cancel2()
		cmd2 := evid.Guarded(ctx2, 60, dir, nil, nativeBin, args2...)
		if f, err := os.Create(filepath.Join(dir, "stdout2")); err == nil {
			defer f.Close()
			cmd2.Stdout, cmd2.Stderr = f, f
		}
		err2 := cmd2.Run()
		w.Count("cli_runs_relative_paths_with_graph", 1)
		after2, _ := os.ReadFile(outp)
		if err2 == nil && !bytes.Equal(after2, libOut) {
			where := ""
			if _, e := os.Stat(filepath.Join(dir, "doc", "out.txt")); e == nil {
				where = " (a file out.txt appeared in the picture's directory)"
			}
			bad("cli-output-not-at-the-given-path", fmt.Sprintf("`yaccgo generate -g doc/automaton.png ... in.y out.txt` exits 0 but out.txt does not hold the generated parser%s: %s", where, firstDiff(libOut, after2)))
		}
	}
	// a file type the tool cannot generate (one its help text names, one it does not): either an error
	// status with the existing file untouched, or a complete file - never "success" with the old file
	if strings.HasPrefix(c.Origin, "whole:") && c.Variant == gen.Go {
		for _, ft := range []string{"rust", "golang", "--nosuchflag"} {
			os.WriteFile(outp, []byte(sentinel), 0o644)
			ctx3, cancel3 := context.WithTimeout(context.Background(), 120*time.Second)
			args3 := []string{"generate", ft, in, outp}
			if strings.HasPrefix(ft, "--") {
				args3 = []string{"generate", ft, "go", in, outp} // an option the tool does not know
			}
			cmd3 := evid.Guarded(ctx3, 60, dir, nil, nativeBin, args3...)
			err3 := cmd3.Run()
			cancel3()
			w.Count("cli_runs_other_file_types", 1)
			after3, _ := os.ReadFile(outp)
			switch {
			case err3 != nil && !bytes.Equal(after3, []byte(sentinel)):
				bad("cli-file-damaged", fmt.Sprintf("`yaccgo generate %s` exited with an error but the existing output file changed", ft))
			case err3 == nil && (c.Epilogue == "" || !strings.HasSuffix(string(after3), c.Epilogue) || bytes.Equal(after3, []byte(sentinel))):
				bad("cli-success-without-output", fmt.Sprintf("`yaccgo generate %s in.y out.txt` exits 0 (success) but out.txt is not a generated file: %d bytes, the old content %v", ft, len(after3), bytes.Equal(after3, []byte(sentinel))))
			}
		}
	}
}
