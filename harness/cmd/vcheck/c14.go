package main

import (
	"bytes"
	"context"
	"crypto/sha256"
	"encoding/json"
	"fmt"
	"os"
	"path/filepath"
	"strings"
	"time"

	"github.com/acekingke/yaccgo/verifsched"

	"verifharness/evid"
	"verifharness/gen"
	"verifharness/gram"
	"verifharness/ref"
	"verifharness/ygo"
)

// C14: generation is deterministic. Go randomises map iteration, which is the
// only nondeterminism in yaccgo: the harness owns the order of every map
// range (source overlay) and explores it like a scheduler explores
// preemptions: canonical order everywhere, then every alternative order at
// one visit (deviation bound 1), pairs on the smallest grammars, and uniform
// policies.

func init() {
	register(&CheckDef{
		ID:    "C14",
		Level: "exploration",
		Rule: "for each corpus grammar x option set {go, -u, -o, -o -u, typescript}: the run with canonical order at every map-range visit is recorded (sites and sizes), then re-run with ONE visit taking each alternative order (all n!-1 permutations for n<=4 quick / n<=6 thorough, beyond that reversal, all rotations and all adjacent transpositions - reported as a cap), with every visit reversed / rotated, and (thorough) with two deviating visits on the smallest grammars; the output file must be byte-identical every time; plus every history of <=2 (quick) / <=3 (thorough) generation calls in one process against single-call outputs; plus 6 runs of the native CLI binary per (grammar, options) (free-running pass, Go's own random order), whose output must also equal the in-process output for the same options (flag handling of the CLI); " +
			"evaluations = generator executions; non-trivial = execution with at least one visit of >=2 keys in non-canonical order; distinct = distinct (grammar, options, schedule)",
		Assumptions: []string{
			"map iteration is the only source of nondeterminism in yaccgo (19 range-over-map sites found by go/types in the current tree; no time, randomness, goroutine races affecting output: the lexer goroutine feeds an unbuffered channel consumed in order)",
			"every order the overlay produces is an order Go's specification allows",
		},
		Work: func(w *Worker) { c14Work(w) },
		Replay: func(w *Worker, raw json.RawMessage) {
			var c c14Case
			if json.Unmarshal(raw, &c) == nil && c.Spec != nil {
				c14Eval(w, &c)
			}
		},
	})
}

type c14Case struct {
	Origin  string     `json:"origin"`
	Spec    *gram.Spec `json:"spec"`
	Variant string     `json:"variant"`
	Pairs   bool       `json:"pairs,omitempty"`
}

func c14Corpus(w *Worker) []gram.Named {
	var out []gram.Named
	out = append(out, gram.Families()...)
	// a few decorated ones: precedence, explicit numbers, literal tokens
	out = append(out, gram.Named{Name: "explicit-numbers", Spec: func() *gram.Spec {
		s := gram.Parse("S", nil, "S: TA S TB | TC | TD TE")
		s.Tokens = []gram.TokDecl{{Name: "TA"}, {Name: "TB", Num: 300}, {Name: "TC"}, {Name: "TD", Num: 7}, {Name: "TE"}}
		return s
	}()})
	stride := int64(997)
	if w.Thorough() {
		stride = 149
	}
	for _, cl := range quickClasses() {
		u := cl.Universe()
		cl.Enumerate(false, func(i int64, rules []int) bool {
			if i%stride == 11 {
				s := cl.SpecOf(u, rules)
				if ref.FromSpec(s).Usable() {
					out = append(out, gram.Named{Name: fmt.Sprintf("%s#%d", cl, i), Spec: s})
				}
			}
			return true
		})
	}
	return out
}

func c14Work(w *Worker) {
	corpus := c14Corpus(w)
	if w.Shard == 0 {
		w.Count("corpus_grammars", int64(len(corpus)))
	}
	var idx int64
	for gi, n := range corpus {
		for _, v := range gen.AllVariants {
			if w.Mine(idx) {
				c := &c14Case{Origin: n.Name, Spec: n.Spec, Variant: v, Pairs: w.Thorough() && gi%9 == 0 && len(n.Spec.Rules) <= 3}
				w.Begin(idx, c)
				c14Eval(w, c)
			}
			idx++
		}
	}
	// histories
	if w.Mine(idx) {
		w.Begin(idx, map[string]string{"origin": "histories"})
		c14Histories(w)
	}
	idx++
	if w.Mine(idx) {
		w.Begin(idx, map[string]string{"origin": "native-cli"})
		c14Native(w, corpus)
	}
}

func c14Gen(w *Worker, text, variant string, o ygo.Options) ([]byte, *ygo.Result) {
	path := filepath.Join(w.Scratch, fmt.Sprintf("c14-%d-%s.out", w.Shard, variant))
	os.Remove(path)
	b, res := c14GenAt(path, text, variant, o)
	os.Remove(path)
	return b, res
}

// c14GenAt generates to path, over whatever an earlier call left there.
func c14GenAt(path, text, variant string, o ygo.Options) ([]byte, *ygo.Result) {
	o.Unpack = gen.IsUnpack(variant)
	o.Object = gen.IsObject(variant)
	o.Fuel = 100_000_000
	lang := "go"
	if variant == gen.TS {
		lang = "typescript"
	}
	res := ygo.Generate(lang, text, path, o)
	b, _ := os.ReadFile(path)
	return b, res
}

func c14Eval(w *Worker, c *c14Case) {
	d := gen.Decorate(c.Spec, nil, gen.UseAll)
	text := d.Source(c.Variant, "p")
	key := c.Spec.Key() + " / " + c.Variant
	canon, res := c14Gen(w, text, c.Variant, ygo.Options{Record: true})
	w.Count("evaluations", 1)
	if !res.OK2() || canon == nil {
		w.Count("skipped_generation_failed", 1)
		return
	}
	visits := res.Visits
	w.Count("visits_recorded", int64(len(visits)))
	differs := func(kind string, sched map[int]verifsched.Choice, def verifsched.Choice, site string) bool {
		out, r2 := c14Gen(w, text, c.Variant, ygo.Options{Order: def, Deviate: sched})
		w.Count("evaluations", 1)
		w.Distinct(fmt.Sprint(key, def, sched))
		if r2.OK2() && bytes.Equal(out, canon) {
			return false
		}
		what := firstDiff(canon, out)
		if !r2.OK2() {
			what = "generation fails under this order: " + r2.Diag()
		}
		w.Violate("C14|"+kind+"|"+site+"|"+key, fmt.Sprintf("output depends on map iteration order at %s (%s): grammar [%s]: %s", site, kind, key, what), c,
			map[string]interface{}{"grammar_text": text, "site": site, "schedule": sched, "default_order": def, "first_difference": what})
		return true
	}
	sitesBad := map[string]bool{}
	for i, v := range visits {
		if v.N < 2 || sitesBad[v.Site] {
			continue
		}
		maxPerm := 4
		if w.Thorough() {
			maxPerm = verifsched.MaxPermN
		}
		alts, capped := verifsched.AlternativesUpTo(v.N, maxPerm)
		if capped {
			w.Cap(fmt.Sprintf("visits with more than %d keys: reversal, rotations and adjacent transpositions only", maxPerm))
		}
		w.Max("keys_in_one_visit", int64(v.N))
		for _, a := range alts {
			if differs("one-visit", map[int]verifsched.Choice{i: a}, verifsched.Choice{}, v.Site) {
				sitesBad[v.Site] = true
				break
			}
		}
	}
	if len(sitesBad) > 0 {
		return
	}
	for _, def := range []verifsched.Choice{{Kind: verifsched.Reverse}, {Kind: verifsched.Rotate, Arg: 1}, {Kind: verifsched.Rotate, Arg: 2}, {Kind: verifsched.Swap, Arg: 0}} {
		if differs("uniform-policy", nil, def, fmt.Sprintf("all sites (policy %d/%d)", def.Kind, def.Arg)) {
			return
		}
	}
	if c.Pairs {
		for i, vi := range visits {
			if vi.N < 2 {
				continue
			}
			ai, _ := verifsched.Alternatives(vi.N)
			for j := i + 1; j < len(visits); j++ {
				vj := visits[j]
				if vj.N < 2 {
					continue
				}
				aj, _ := verifsched.Alternatives(vj.N)
				// reversal-like representatives keep the pair space finite: first and last alternative of each
				for _, x := range []verifsched.Choice{ai[0], ai[len(ai)-1]} {
					for _, y := range []verifsched.Choice{aj[0], aj[len(aj)-1]} {
						if differs("two-visits", map[int]verifsched.Choice{i: x, j: y}, verifsched.Choice{}, vi.Site+" + "+vj.Site) {
							return
						}
					}
				}
			}
		}
	}
	w.SampleEvery(w.Out.Counters["evaluations"], 301, func() interface{} {
		return map[string]interface{}{"grammar": key, "visits": len(visits), "example_visit": visits[len(visits)/2]}
	})
}

func firstDiff(a, b []byte) string {
	la, lb := strings.Split(string(a), "\n"), strings.Split(string(b), "\n")
	for i := 0; i < len(la) && i < len(lb); i++ {
		if la[i] != lb[i] {
			return fmt.Sprintf("line %d: %q vs %q", i+1, strings.TrimSpace(la[i]), strings.TrimSpace(lb[i]))
		}
	}
	return fmt.Sprintf("length %d vs %d lines", len(la), len(lb))
}

// c14Histories: every sequence of generation calls in one process must give,
// call by call, the output of that call made alone.
func c14Histories(w *Worker) {
	fams := gram.Families()
	specs := []*gram.Spec{fams[1].Spec, fams[7].Spec}
	type call struct {
		g int
		v string
	}
	var calls []call
	solo := map[call][]byte{}
	for g := range specs {
		for _, v := range gen.AllVariants {
			c := call{g, v}
			calls = append(calls, c)
			out, _ := c14Gen(w, gen.Decorate(specs[g], nil, gen.UseAll).Source(v, "p"), v, ygo.Options{})
			solo[c] = out
		}
	}
	// two more history elements: generation calls that FAIL (a lexical error; an undefined symbol).
	// They have no output of their own but must not influence later calls.
	broken := []string{"%token TA\n%%\nS : TA @ ;\n", "%token TA\n%start S\n%%\nS : TA Undefined_Sym ;\n"}
	for bi := range broken {
		calls = append(calls, call{g: -1 - bi, v: gen.Go})
	}
	depth := 2
	if w.Thorough() {
		depth = 3
	}
	var rec func(h []call)
	rec = func(h []call) {
		if len(h) > 0 {
			w.Count("histories", 1)
			// replay the whole history, compare the last call
			// all calls of a history write to ONE path, as a user regenerating a parser does: the file
			// left by the previous call is part of the state the next call starts from
			var out []byte
			path := filepath.Join(w.Scratch, fmt.Sprintf("c14-%d-history.out", w.Shard))
			os.Remove(path)
			for _, c := range h {
				if c.g < 0 {
					c14GenAt(path, broken[-1-c.g], c.v, ygo.Options{})
					out = nil
				} else {
					out, _ = c14GenAt(path, gen.Decorate(specs[c.g], nil, gen.UseAll).Source(c.v, "p"), c.v, ygo.Options{})
				}
				w.Count("evaluations", 1)
			}
			os.Remove(path)
			last := h[len(h)-1]
			if last.g < 0 {
				// nothing to compare for a failing last call; longer histories continue from here
			} else if !bytes.Equal(out, solo[last]) {
				w.Violate(fmt.Sprintf("C14|history|%v", h), fmt.Sprintf("generation call %v gives a different file after the calls %v than alone: %s", last, h[:len(h)-1], firstDiff(solo[last], out)),
					&c14Case{Origin: "history", Spec: specs[last.g], Variant: last.v}, map[string]interface{}{"history": fmt.Sprint(h)})
				return
			}
		}
		if len(h) == depth {
			return
		}
		for _, c := range calls {
			rec(append(append([]call(nil), h...), c))
		}
	}
	rec(nil)
}

// c14Native runs the real CLI binary (no overlay, Go's own map order)
// several times per grammar and option set. A difference is a violation
// shown on the real code; no difference proves nothing by itself.
func c14Native(w *Worker, corpus []gram.Named) {
	bin, err := nativeCLI(w)
	if err != nil {
		w.Note("INTERNAL: cannot build the native CLI: " + err.Error())
		return
	}
	dir := filepath.Join(w.Scratch, "c14-native")
	os.MkdirAll(dir, 0o755)
	defer os.RemoveAll(dir)
	n := 8
	if w.Thorough() {
		n = 40
	}
	if n > len(corpus) {
		n = len(corpus)
	}
	flags := map[string][]string{gen.Go: {"go"}, gen.GoU: {"-u", "go"}, gen.GoO: {"-o", "go"}, gen.GoOU: {"-o", "-u", "go"}, gen.TS: {"typescript"}}
	for gi := 0; gi < n; gi++ {
		c := corpus[gi*len(corpus)/n]
		for _, v := range gen.AllVariants {
			in := filepath.Join(dir, "in.y")
			os.WriteFile(in, []byte(gen.Decorate(c.Spec, nil, gen.UseAll).Source(v, "p")), 0o644)
			// the same options in-process (library call, canonical map order): the CLI must write the same bytes
			lib, lres := c14Gen(w, gen.Decorate(c.Spec, nil, gen.UseAll).Source(v, "p"), v, ygo.Options{})
			libSum := sha256.Sum256(lib)
			var first [32]byte
			for k := 0; k < 6; k++ {
				outp := filepath.Join(dir, "out.txt")
				os.Remove(outp)
				args := append([]string{"generate"}, flags[v]...)
				args = append(args, in, outp)
				ctx, cancel := context.WithTimeout(context.Background(), 120*time.Second)
				cm := evid.Guarded(ctx, 60, dir, nil, bin, args...)
				cm.Run()
				cancel()
				b, _ := os.ReadFile(outp)
				h := sha256.Sum256(b)
				w.Count("native_cli_runs", 1)
				if k == 0 {
					first = h
					if lres.OK2() && h != libSum {
						w.Violate("C14|cli-differs-from-library|"+c.Spec.Key()+" / "+v, fmt.Sprintf("`yaccgo generate %s` writes a different file than the generator called in-process with the same options: grammar [%s]: %s", strings.Join(flags[v], " "), c.Spec.Key(), firstDiff(lib, b)),
							&c14Case{Origin: c.Name, Spec: c.Spec, Variant: v}, nil)
						break
					}
				} else if h != first {
					w.Violate("C14|native-cli|"+c.Spec.Key()+" / "+v, fmt.Sprintf("the native yaccgo binary writes different files for the same input on repeated runs: grammar [%s], options %v", c.Spec.Key(), flags[v]),
						&c14Case{Origin: c.Name, Spec: c.Spec, Variant: v}, nil)
					break
				}
			}
		}
	}
}
