package main

import (
	"encoding/json"
	"fmt"
	"strings"

	"verifharness/lrm"
	"verifharness/ref"
	"verifharness/ygo"
)

// C01 soundness, C02 completeness, C06 error reporting: one explicit-state
// exploration of the LR machine defined by yaccgo's own tables (dense and
// packed), judged by three different oracles.

// lrDepth: class grammars have <=3 terminals and are explored to depth 5/6;
// family grammars have larger alphabets but few viable prefixes (the search
// only extends shifted tokens), so they are explored deeper.
func lrDepth(w *Worker, c *GCase) int {
	fam := strings.HasPrefix(c.Origin, "family:")
	switch {
	case fam && w.Thorough():
		return 11
	case fam:
		return 9
	case w.Thorough():
		return 6
	}
	return 5
}

func registerLR(id, rule string, assumptions []string) {
	register(&CheckDef{
		ID:          id,
		Level:       "model_checking",
		Rule:        rule,
		Assumptions: assumptions,
		Work: func(w *Worker) {
			forEachGrammar(w, classesFor(w), false, true, func(idx int64, c *GCase) { lrEval(w, c, id) })
			genPhase(w, id)
		},
		Replay: func(w *Worker, raw json.RawMessage) {
			var c GCase
			if json.Unmarshal(raw, &c) != nil {
				return
			}
			if c.Origin == "gen" {
				genReplay(w, id, &c)
				return
			}
			if c.Spec != nil {
				lrEval(w, &c, id)
			}
		},
		Coverage: func(out *evidOut, cov map[string]interface{}) {
			cov["states"] = out.Counters["lr_configurations"]
			cov["transitions"] = out.Counters["lr_transitions"]
			cov["traces_validated_against_impl"] = out.Counters["gen_traces_validated"]
			cov["explanation"] = "states = parser configurations reached on all token strings up to the depth bound (prefix shared DFS) over yaccgo's own tables; transitions = (configuration, next token) steps; traces validated = (generated parser, input string) runs whose verdict, reductions, fetch count and value were compared with the model run"
		},
	})
}

func init() {
	common := []string{
		"the abstract LR driver (harness/lrm) has the control flow of the generated driver text; it is bound to the generated code by replaying every model run of the conformance corpus on compiled generated parsers",
		"Earley recognizer (harness/ref/earley.go) decides membership and viable prefixes; derivation checker is a plain symbol stack",
		"token strings up to the depth bound over the grammar's terminals, the end marker and one token code unknown to translate()",
	}
	registerLR("C01", "all grammars of the bounded classes + families x all token strings up to depth k on the dense and the packed table: every reduction must have its right-hand side (as written in the specification) literally on top of the symbol stack and an accepting run must end on the end marker with exactly the start symbol (reductions reversed = rightmost derivation), and Earley must agree; non-trivial = grammar with at least one accepting run inside the bound; distinct = distinct rule sets", common)
	registerLR("C02", "grammars that the REFERENCE classifies conflict-free LALR(1) x all token strings up to depth k: every token that Earley says can extend the prefix to a sentence must be shifted / accepted (dense and packed tables, then generated parsers); non-trivial = conflict-free grammar with at least one sentence inside the bound", common)
	registerLR("C06", "all grammars x all token strings up to depth k (including an unknown token code): a non-accepting run must end in the documented error outcome, never in an index error or garbage action; on conflict-free grammars the first token that is not viable (Earley) must be rejected without being shifted and after finitely many reductions; non-trivial = grammar with at least one rejected string", common)
}

type evidOut = evidWorkerOut

func lrEval(w *Worker, c *GCase, id string) {
	w.Count("evaluations", 1)
	g, vw := buildUsableLoose(w, c)
	if g == nil {
		return
	}
	a := g.LR0()
	t := a.Table()
	key := c.Spec.Key()
	machines := []struct {
		name string
		m    *lrm.Machine
	}{{"dense", lrm.Dense(vw.V)}}
	if pm := lrm.Packed(vw.V); pm != nil {
		machines = append(machines, struct {
			name string
			m    *lrm.Machine
		}{"packed", pm})
		w.Count("grammars_with_packed_table", 1)
	}
	if t.ConflictFree {
		w.Count("grammars_conflict_free", 1)
	} else if id == "C02" {
		w.Count("skipped_not_lalr1", 1)
		return
	}
	accepts, rejects := 0, 0
	violated := false
	var refM *lrm.Machine
	if !t.ConflictFree && t.AllJudged() && id == "C06" {
		// conflicts, but every one is decided by the declarations: the reference table is the parser the declarations describe
		refM = refMachine(g, t)
		w.Count("grammars_judged_against_reference_resolution", 1)
	}
	for _, mc := range machines {
		x := &lrExplorer{g: g, vw: vw, m: mc.m, depth: lrDepth(w, c), bottom: id == "C06", refM: refM}
		x.visit = func(st *lrStep) {
			if violated {
				return
			}
			bad := func(kind, msg string) {
				violated = true
				in := tokString(g, st.Prefix, st.Tok)
				w.Violate(id+"|"+kind+"|"+mc.name+"|"+key, fmt.Sprintf("%s (%s table): grammar [%s], input [%s]: %s", kind, mc.name, key, in, msg), c,
					map[string]interface{}{"grammar_text": c.Spec.Render(), "input": in, "table": mc.name, "what": msg, "reductions": redTextOf(g, vw, st.Res.Reds)})
			}
			if st.Res.Out == lrm.Accepted {
				accepts++
			} else if st.Res.Out == lrm.Rejected {
				rejects++
			}
			switch id {
			case "C01":
				if !vw.RulesDiffer {
					if msg := checkDerivation(g, vw, st); msg != "" {
						bad("invalid-derivation", msg)
						return
					}
				}
				if st.Res.Out == lrm.Accepted && !(st.Viable && st.CanNext) {
					bad("accepts-non-sentence", "the parser accepts but the grammar does not derive this token string (Earley)")
				}
			case "C02":
				if st.Viable && st.CanNext && st.Res.Out != lrm.Shifted && st.Res.Out != lrm.Accepted {
					what := "a sentence of the grammar"
					if st.Tok != g.EOF() {
						what = "a prefix of a sentence of the grammar"
					}
					bad("sentence-rejected", fmt.Sprintf("the input is %s but the parser answers %s %s", what, st.Res.Out, st.Res.Detail))
				}
			case "C06":
				if st.Res.Out == lrm.Crashed {
					bad("crash-instead-of-syntax-error", st.Res.Detail)
					return
				}
				if st.HasRef && st.RefOut == lrm.Rejected && (st.Res.Out == lrm.Shifted || st.Res.Out == lrm.Accepted) {
					bad("error-by-declaration-not-reported", fmt.Sprintf("with the declared precedence and associativity the last token is a syntax error here, but the parser answers %s", st.Res.Out))
					return
				}
				if t.ConflictFree {
					if st.Res.Out == lrm.Looped {
						bad("no-verdict", st.Res.Detail)
						return
					}
					if st.Viable && !st.CanNext {
						// first token that cannot continue any sentence
						if st.Res.Out != lrm.Rejected {
							bad("bad-token-not-rejected", fmt.Sprintf("the last token cannot continue any sentence but the parser answers %s", st.Res.Out))
						}
					}
					if st.Viable && st.CanNext && st.Tok != g.EOF() {
						// a token that CAN continue a sentence: an error here is reported before the first bad token
						// of every non-sentence that begins like this, an accept here swallows whatever follows
						if st.Res.Out == lrm.Rejected {
							bad("error-before-the-first-bad-token", "the last token can continue a sentence, yet the parser reports the syntax error here: for every non-sentence with this beginning the error comes at the wrong token")
						} else if st.Res.Out == lrm.Accepted {
							bad("accepted-before-end-of-input", "the parser accepts at this token without having seen the end marker: whatever follows is accepted with it")
						}
					}
				}
			}
		}
		x.run()
		w.Count("lr_configurations", x.States)
		w.Count("lr_transitions", x.Transitions)
		if violated {
			return
		}
	}
	nontrivial := false
	switch id {
	case "C01", "C02":
		nontrivial = accepts > 0
	case "C06":
		nontrivial = rejects > 0
	}
	if nontrivial {
		w.Distinct(key)
	}
	w.Count("accepting_runs", int64(accepts))
	w.Count("rejecting_runs", int64(rejects))
	w.SampleEvery(w.Out.Counters["evaluations"], 4999, func() interface{} {
		return map[string]interface{}{"grammar": key, "conflict_free": t.ConflictFree, "accepting_runs": accepts, "rejecting_runs": rejects, "depth": lrDepth(w, c)}
	})
}

func redTextOf(g *ref.Grammar, vw *ygo.View, reds []int) []string {
	if vw.RulesDiffer {
		return []string{fmt.Sprintf("(rule numbers %v of a rule list that differs from the file)", reds)}
	}
	return redText(g, reds)
}

func redText(g *ref.Grammar, reds []int) []string {
	var out []string
	for _, r := range reds {
		out = append(out, g.RuleString(r))
	}
	return out
}

var _ = ygo.Build
