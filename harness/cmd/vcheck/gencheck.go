package main

import (
	"encoding/json"
	"fmt"
	"sort"
	"strings"

	"verifharness/gen"
	"verifharness/gen/rt"
	"verifharness/gram"
	"verifharness/lrm"
	"verifharness/ref"
	"verifharness/ygo"
)

// E-GEN: conformance of generated parsers. The corpus is enumerated
// deterministically; every worker generates, builds and runs its share.

type genCase struct {
	Origin string          `json:"origin"`
	Spec   *gram.Spec      `json:"spec"`
	Tags   gen.Tags        `json:"tags,omitempty"`
	Shape  gen.ActionShape `json:"shape"`
	// Renumber: named tokens are re-declared untagged with an explicit number on a later line
	Renumber bool `json:"renumber,omitempty"`
	// Nested: every action also parses the same input once more from inside the action
	// (PushContex/ParserInit/Parser/PopContex on the global parser, a fresh context with -o)
	Nested bool `json:"nested,omitempty"`
	// Lazy: the lexer does not clear the value cell and accumulates into it (see gen.Decorated.Lazy)
	Lazy bool `json:"lazy,omitempty"`
	// FieldN: the int member of the %union carries this name instead of n (Go variants)
	FieldN string `json:"field_n,omitempty"`
	// InfFirst: the TypeScript lexer gives the first token the number Infinity (see gen.Decorated.InfFirst)
	InfFirst bool `json:"inf_first,omitempty"`
}

func genDepth(w *Worker) int {
	if w.Thorough() {
		return 5
	}
	return 4
}

// genCorpus lists the conformance corpus: the family list, every rule set of
// two tiny classes and a fixed-stride selection of the tier's classes; only
// grammars the reference classifies as usable.
func genCorpus(w *Worker) []*genCase {
	var out []*genCase
	add := func(origin string, s *gram.Spec) {
		if ref.FromSpec(s).Usable() {
			out = append(out, &genCase{Origin: origin, Spec: s})
		}
	}
	for _, n := range append(gram.Families(), gram.BigFamilies()...) {
		add("family:"+n.Name, n.Spec)
	}
	tiny := []gram.Class{{N: 2, T: 2, L: 2, R: 2}, {N: 1, T: 2, L: 3, R: 2}}
	for _, cl := range tiny {
		u := cl.Universe()
		cl.Enumerate(false, func(i int64, rules []int) bool {
			add(cl.String(), cl.SpecOf(u, rules))
			return true
		})
	}
	stride := int64(53)
	if w.Thorough() {
		stride = 211
	}
	for _, cl := range classesFor(w) {
		u := cl.Universe()
		cl.Enumerate(false, func(i int64, rules []int) bool {
			if i%stride == 7 {
				add(cl.String()+fmt.Sprintf("#%d", i), cl.SpecOf(u, rules))
			}
			return true
		})
	}
	return out
}

// obs is everything observed for one corpus grammar.
type obs struct {
	c      *genCase
	g      *ref.Grammar
	vw     *ygo.View
	tbl    *ref.Table
	d      *gen.Decorated
	inputs []string
	// by variant, by input index
	runs  map[string][]*rt.Result
	dumps map[string][][]int
	items map[string]*gen.Item
	// loose: yaccgo's rule list differs from the file's; no model run, judged against the file's grammar only
	loose bool
	// prefix sums of the token numbers of one input (lazy lexer)
	lazyIn   string
	lazySums []int
}

// fuel: lexer calls plus actions one parse may make before the driver calls it a loop (the default
// 5000 is far above what inputs of up to 300 tokens need; the two very deep inputs need more).
func (o *obs) fuel() int {
	f := 0
	for _, in := range o.inputs {
		if 5*len(in) > f {
			f = 5 * len(in)
		}
	}
	if f < 5000 {
		return 0
	}
	return f
}

// allInputs enumerates every string over the terminals' characters and '?'
// up to length k, shortest first.
func allInputs(d *gen.Decorated, k int) []string {
	var chars []byte
	for _, c := range d.Chars {
		chars = append(chars, c)
	}
	sort.Slice(chars, func(i, j int) bool { return chars[i] < chars[j] })
	chars = append(chars, '?')
	out := []string{""}
	prev := []string{""}
	for l := 1; l <= k; l++ {
		var cur []string
		for _, p := range prev {
			for _, c := range chars {
				cur = append(cur, p+string(c))
			}
		}
		out = append(out, cur...)
		prev = cur
	}
	return out
}

// toks maps an input string to reference terminal ids (-1 = unknown token).
func (o *obs) toks(in string) []int {
	rev := map[byte]int{}
	for name, c := range o.d.Chars {
		rev[c] = o.g.ID(name)
	}
	out := make([]int, len(in))
	for i := 0; i < len(in); i++ {
		if id, ok := rev[in[i]]; ok {
			out[i] = id
		} else {
			out[i] = -1
		}
	}
	return out
}

type val struct {
	N int
	S string
}

// evalAction mirrors gen.ActionFor.
func evalAction(r int, rule gram.Rule, tags gen.Tags, shape gen.ActionShape, args []val) val {
	if shape == gen.NoAction || (shape == gen.Mixed && r%2 == 0) || gen.IsBare(shape, r, rule) {
		return val{}
	}
	lt := tags[rule.L]
	if shape == gen.PlainCopy {
		if len(rule.R) == 0 || lt == "" || tags[rule.R[0]] == "" {
			return val{}
		}
		a := args[0]
		switch {
		case lt == "s" && tags[rule.R[0]] == "s":
			return val{S: a.S}
		case lt == "n" && tags[rule.R[0]] == "n":
			return val{N: a.N}
		case lt == "s":
			return val{S: rt.SN(a.N)}
		}
		return val{N: rt.NS(a.S)}
	}
	var ss []string
	var ns []int
	for i, x := range rule.R {
		if shape == gen.UseFirst && i != 0 {
			continue
		}
		if shape == gen.UseLast && i != len(rule.R)-1 {
			continue
		}
		xt := tags[x]
		if xt == "" {
			continue
		}
		a := args[i]
		switch lt {
		case "n":
			if xt == "n" {
				ns = append(ns, a.N)
			} else {
				ns = append(ns, rt.NS(a.S))
			}
		default:
			if xt == "s" {
				ss = append(ss, a.S)
			} else {
				ss = append(ss, rt.SN(a.N))
			}
		}
	}
	switch lt {
	case "s":
		return val{S: rt.HS(r, ss...)}
	case "n":
		return val{N: rt.HN(r, ns...)}
	}
	return val{}
}

// evalDerivation is the table-free derivation checker plus reference
// attribute evaluation: given the reductions a parser reported (rule, lexer
// calls made so far) it shifts and reduces on a plain symbol stack.
func (o *obs) evalDerivation(in string, reds []rt.Red, accepted bool) (val, string) {
	toks := o.toks(in)
	var syms []int
	var vals []val
	shifted := 0
	shiftTo := func(n int) string {
		for shifted < n {
			if shifted >= len(toks) {
				return "a reduction claims more tokens than the input has"
			}
			if toks[shifted] < 0 {
				return "an unknown token was shifted"
			}
			syms = append(syms, toks[shifted])
			name := o.g.Names[toks[shifted]]
			v := val{}
			switch o.d.Tags[name] {
			case "n":
				v.N = rt.TokN(in[shifted], shifted)
			case "s":
				v.S = rt.TokS(in[shifted], shifted)
			}
			// the lexer always fills both fields; only the tagged one is observable
			v = o.tokVal(in, shifted)
			vals = append(vals, v)
			shifted++
		}
		return ""
	}
	for _, rd := range reds {
		if rd.Rule <= 0 || rd.Rule >= len(o.g.Rules) {
			return val{}, fmt.Sprintf("reduction by unknown rule %d", rd.Rule)
		}
		if msg := shiftTo(rd.Fetches - 1); msg != "" {
			return val{}, msg
		}
		if shifted != rd.Fetches-1 {
			return val{}, "reductions are not ordered by input position"
		}
		r := o.g.Rules[rd.Rule]
		n := len(r.R)
		if n > len(syms) {
			return val{}, fmt.Sprintf("reduction by %s with %d symbols on the stack", o.g.RuleString(rd.Rule), len(syms))
		}
		for i, want := range r.R {
			if syms[len(syms)-n+i] != want {
				return val{}, fmt.Sprintf("reduction by %s but the stack top is %s", o.g.RuleString(rd.Rule), o.symNames(syms[len(syms)-n:]))
			}
		}
		v := evalAction(rd.Rule, o.d.Spec.Rules[rd.Rule-1], o.d.Tags, o.d.Shape, vals[len(vals)-n:])
		syms = append(syms[:len(syms)-n], r.L)
		vals = append(vals[:len(vals)-n], v)
	}
	if !accepted {
		return val{}, ""
	}
	if msg := shiftTo(len(toks)); msg != "" {
		return val{}, msg
	}
	if len(syms) != 1 || syms[0] != o.g.Start {
		return val{}, "the reductions leave " + o.symNames(syms) + " instead of the start symbol alone"
	}
	return vals[0], ""
}

func (o *obs) symNames(s []int) string {
	var p []string
	for _, x := range s {
		p = append(p, o.g.Names[x])
	}
	return "[" + strings.Join(p, " ") + "]"
}

// tokVal is the value the harness lexer stores for the token at pos.
func (o *obs) tokVal(in string, pos int) val {
	if !o.d.Lazy {
		return val{N: rt.TokN(in[pos], pos), S: rt.TokS(in[pos], pos)}
	}
	// the lazy lexer adds the token's number to what the previous call left in the cell
	if o.lazyIn != in || len(o.lazySums) != len(in) {
		o.lazyIn, o.lazySums = in, make([]int, len(in))
		sum := 0
		for p := 0; p < len(in); p++ {
			sum = (sum + rt.TokN(in[p], p)) % rt.Mod
			o.lazySums[p] = sum
		}
	}
	return val{N: o.lazySums[pos], S: rt.TokS(in[pos], pos)}
}

// predict runs the model on a complete input.
func (o *obs) predict(m *lrm.Machine, in string) rt.Result {
	toks := o.toks(in)
	c := lrm.Initial()
	res := rt.Result{Fetches: 1}
	var vals []val
	vals = append(vals, val{})
	pos := 0
	for {
		la := 1 // end marker
		if pos < len(toks) {
			if toks[pos] < 0 {
				la = 0
			} else {
				la = o.vw.RefToSym[toks[pos]]
			}
		}
		next, sr := m.Step(c, la, 4000+2*len(toks))
		for _, ev := range sr.Events {
			switch ev.Kind {
			case 's':
				vals = append(vals, o.tokVal(in, pos))
			case 'r':
				res.Reds = append(res.Reds, rt.Red{Rule: ev.Rule, Fetches: res.Fetches})
				n := len(o.g.Rules[ev.Rule].R)
				v := evalAction(ev.Rule, o.d.Spec.Rules[ev.Rule-1], o.d.Tags, o.d.Shape, vals[len(vals)-n:])
				vals = append(vals[:len(vals)-n], v)
			}
		}
		c = next
		switch sr.Out {
		case lrm.Shifted:
			pos++
			res.Fetches++
			continue
		case lrm.Accepted:
			res.Class = "accept"
			res.N, res.S = vals[len(vals)-1].N, vals[len(vals)-1].S
		case lrm.Rejected:
			res.Class = "syntax-error"
		case lrm.Crashed:
			res.Class = "crash"
		case lrm.Looped:
			res.Class = "loop"
		}
		return res
	}
}

func sameReds(a, b []rt.Red, withFetch bool) bool {
	if len(a) != len(b) {
		return false
	}
	for i := range a {
		if a[i].Rule != b[i].Rule || (withFetch && a[i].Fetches != b[i].Fetches) {
			return false
		}
	}
	return true
}

// genVariantsFor says which generated variants a check needs.
func genVariantsFor(id string) []string {
	switch id {
	case "C05":
		return gen.GoVariants
	case "C17":
		return append(append([]string(nil), gen.GoVariants...), gen.GoG)
	case "C07":
		return []string{gen.Go, gen.GoOU, gen.TS}
	}
	return gen.AllVariants
}

func genTags(id string, c *genCase) (gen.Tags, gen.ActionShape) {
	if c.Tags != nil {
		return c.Tags, c.Shape
	}
	return gen.AllS(c.Spec), c.Shape
}

// genPhase is the generated-parser half of the checks that have one.
func genPhase(w *Worker, id string) {
	corpus := genCorpus(w)
	if id == "C07" {
		corpus = c07Corpus(w, corpus)
	}
	if id == "C08" {
		// rules without any action block (conflict-free families only: their parsers cannot loop)
		var bare []*genCase
		for _, c := range corpus {
			if strings.HasPrefix(c.Origin, "family:") && c.Tags == nil && c.Shape == gen.UseAll && !c.Renumber {
				if ref.FromSpec(c.Spec).LR0().Table().ConflictFree {
					bare = append(bare, &genCase{Origin: c.Origin + " [some rules without action]", Spec: c.Spec, Shape: gen.Bare})
				}
			}
		}
		corpus = append(corpus, bare...)
		// a lexer that keeps the value cell between its calls (yylval style), numbers observable
		var lazy []*genCase
		for i, c := range corpus {
			fam := strings.HasPrefix(c.Origin, "family:")
			if c.Tags == nil && c.Shape == gen.UseAll && !c.Renumber && (fam || i%9 == 0) {
				alln := gen.Tags{}
				for _, s := range append(c.Spec.Terminals(), c.Spec.Nonterminals()...) {
					alln[s] = "n"
				}
				lazy = append(lazy, &genCase{Origin: c.Origin + " [lexer keeps the value cell]", Spec: c.Spec, Tags: alln, Shape: gen.UseAll, Lazy: true})
			}
		}
		corpus = append(corpus, lazy...)
		// one action text (`$$ = $1`) under different value tags: nonterminals alternately int and string
		var mixed []*genCase
		for _, c := range corpus {
			if strings.HasPrefix(c.Origin, "family:") && c.Tags == nil && c.Shape == gen.UseAll && !c.Renumber {
				t := gen.Tags{}
				for i, x := range c.Spec.Nonterminals() {
					t[x] = []string{"n", "s"}[i%2]
				}
				for _, x := range c.Spec.Terminals() {
					t[x] = "s"
				}
				mixed = append(mixed, &genCase{Origin: c.Origin + " [one action text under different tags]", Spec: c.Spec, Tags: t, Shape: gen.PlainCopy})
			}
		}
		corpus = append(corpus, mixed...)
		// `$1` inside a string literal of the action (every generator rewrites it there, too: all alike or none)
		var instr []*genCase
		for _, c := range corpus {
			if strings.HasPrefix(c.Origin, "family:") && c.Tags == nil && c.Shape == gen.UseAll && !c.Renumber && !c.Nested && !c.Lazy {
				instr = append(instr, &genCase{Origin: c.Origin + " [$1 inside a string literal]", Spec: c.Spec, Shape: gen.InString})
			}
		}
		corpus = append(corpus, instr...)
	}
	if id == "C07" || id == "C17" || id == "C08" || id == "C01" || id == "C06" {
		// the family grammars once more with a nested parse inside every action: what the outer
		// parse computes, reduces and traces must not change
		var nested []*genCase
		for _, c := range corpus {
			if strings.HasPrefix(c.Origin, "family:") && c.Tags == nil && c.Shape == gen.UseAll && !c.Renumber {
				nested = append(nested, &genCase{Origin: c.Origin + " [nested parses]", Spec: c.Spec, Shape: gen.UseAll, Nested: true})
			}
		}
		corpus = append(corpus, nested...)
	}
	var mine []*genCase
	for i, c := range corpus {
		if w.Mine(int64(i)) {
			mine = append(mine, c)
		}
	}
	if w.Shard == 0 {
		w.Count("gen_corpus_grammars", int64(len(corpus)))
	}
	// batches of bounded size keep the driver build small
	const per = 60
	for lo := 0; lo < len(mine); lo += per {
		hi := lo + per
		if hi > len(mine) {
			hi = len(mine)
		}
		w.Begin(int64(1)<<45+int64(lo), map[string]interface{}{"origin": "gen-batch", "first": mine[lo].Spec.Key()})
		genBatch(w, id, mine[lo:hi], fmt.Sprintf("%s-%d-%d", id, w.Shard, lo))
	}
}

func genReplay(w *Worker, id string, c *GCase) {
	var gc genCase
	if json.Unmarshal(c.Extra, &gc) != nil || gc.Spec == nil {
		return
	}
	genBatch(w, id, []*genCase{&gc}, "replay")
}

func genBatch(w *Worker, id string, cases []*genCase, name string) {
	b, err := gen.NewBatch(w.Scratch, name)
	if err != nil {
		w.Note("INTERNAL: " + err.Error())
		return
	}
	defer b.Remove()
	variants := genVariantsFor(id)
	var all []*obs
	for i, c := range cases {
		g := ref.FromSpec(c.Spec)
		tags, shape := genTags(id, c)
		d := gen.DecorateOpt(c.Spec, tags, shape, c.Renumber)
		d.Nested = c.Nested
		d.Lazy = c.Lazy
		d.FieldN = c.FieldN
		d.InfFirst = c.InfFirst
		o := &obs{c: c, g: g, d: d, runs: map[string][]*rt.Result{}, dumps: map[string][][]int{}, items: map[string]*gen.Item{}}
		// the model comes from an in-process build of the same text
		res := ygo.Build(d.Source(gen.Go, "model"), ygo.Options{Fuel: buildFuel})
		if !res.OK() {
			w.Count("gen_skipped_yaccgo_refused", 1)
			continue
		}
		vw, verr := ygo.NewView(res.V, g)
		if verr != nil {
			w.Count("gen_skipped_front_end_mismatch", 1)
			w.SetAdd("front_end_mismatch", verr.Error())
			if id == "C17" {
				w.Violate("C17|rules-differ-from-specification|"+c.Spec.Key(), fmt.Sprintf("grammar [%s]: the rule list yaccgo works on is not the rule list of the file (%s), so the trace names other rules than the ones reduced", c.Spec.Key(), verr.Error()),
					&GCase{Origin: "gen", Extra: mustJSON(c)}, map[string]interface{}{"grammar_text": d.Source(gen.Go, "p")})
			}
			if vw != nil && vw.RulesDiffer && (id == "C01" || id == "C02" || id == "C06") {
				// only the rule list differs from the file's: what the generated parser accepts and which
				// rules its actions report is still judged against the grammar of the FILE (no model run)
				w.Count("gen_rule_list_differs_judged_without_model", 1)
				o.loose = true
			} else {
				if id == "C07" {
					// the action of rule i is emitted under case i: if yaccgo's rule list is not the file's, $n and $$ belong to another rule
					w.Violate("C07|rules-differ-from-specification|"+c.Spec.Key(), fmt.Sprintf("grammar [%s]: the rule list yaccgo works on is not the rule list of the file (%s), so actions are attached to other rules than written", c.Spec.Key(), verr.Error()),
						&GCase{Origin: "gen", Extra: mustJSON(c)}, map[string]interface{}{"grammar_text": d.Source(gen.Go, "p")})
				}
				continue
			}
		}
		o.vw = vw
		o.tbl = g.LR0().Table()
		// all strings up to the tier's depth; grammars with large alphabets
		// (families) get a smaller depth so that the input set stays below ~2000
		k := genDepth(w)
		for k > 2 && pow(len(d.Chars)+1, k) > 2000 {
			k--
		}
		o.inputs = allInputs(d, k)
		// plus one short sentence per rule (so that long rules and rules deep in the grammar are reduced
		// at least once by every variant), up to 16 tokens
		have := map[string]bool{}
		for _, in := range o.inputs {
			have[in] = true
		}
		maxCover := 16
		if strings.HasPrefix(c.Origin, "family:") {
			maxCover = 300 // rules of several hundred symbols are reduced at least once, too
		}
		for _, sent := range g.CoverSentences(maxCover) {
			var b []byte
			for _, t := range sent {
				b = append(b, d.Chars[g.Names[t]])
			}
			if !have[string(b)] {
				have[string(b)] = true
				o.inputs = append(o.inputs, string(b))
			}
		}
		// plus long sentences (family grammars): lengths around 16, 32 and 64, where a parser stack of a
		// fixed initial size would have to grow
		if strings.HasPrefix(c.Origin, "family:") {
			for _, sent := range g.SentencesOfLength([]int{14, 15, 16, 17, 18, 30, 31, 32, 33, 34, 62, 63, 64, 65, 66}) {
				var b []byte
				for _, t := range sent {
					b = append(b, d.Chars[g.Names[t]])
				}
				if !have[string(b)] {
					have[string(b)] = true
					o.inputs = append(o.inputs, string(b))
					w.Count("long_sentences", 1)
				}
			}
		}
		// two inputs that need a parser stack of more than 10 000 entries (a driver with a fixed limit shows)
		switch c.Origin {
		case "family:right-rec-empty-base":
			o.inputs = append(o.inputs, strings.Repeat(string(d.Chars["TA"]), 12000))
		case "family:nested-optional":
			o.inputs = append(o.inputs, strings.Repeat("(", 6000)+strings.Repeat(")", 6000))
		}
		for vi, v := range variants {
			pkg := fmt.Sprintf("p%d_%d", i, vi)
			o.items[v] = b.Add(pkg, v, d)
		}
		all = append(all, o)
	}
	if err := b.BuildGo(); err != nil {
		w.Note("INTERNAL: " + err.Error())
		return
	}
	var jobs []gen.Job
	idx := map[string]*obs{}
	for _, o := range all {
		for _, v := range variants {
			it := o.items[v]
			if v == gen.TS || it.GenDiag != "" || it.BuildErr != "" {
				continue
			}
			idx[it.Pkg] = o
			jobs = append(jobs, gen.Job{Pkg: it.Pkg, Inputs: o.inputs, Trace: id == "C17", NStates: o.vw.NStates, NSyms: len(o.vw.V.G.Symbols), Fuel: o.fuel()})
			o.runs[v] = make([]*rt.Result, 0, len(o.inputs))
		}
	}
	pkgVariant := map[string]string{}
	for _, o := range all {
		for v, it := range o.items {
			pkgVariant[it.Pkg] = v
		}
	}
	err = b.RunGo(jobs, func(out *gen.Out) {
		o := idx[out.Pkg]
		v := pkgVariant[out.Pkg]
		switch out.Kind {
		case "run":
			o.runs[v] = append(o.runs[v], out.Res)
		case "dump":
			o.dumps[v] = out.Dump
			if out.Err != "" {
				o.dumps[v] = [][]int{}
				w.SetAdd("dump_errors", out.Err)
			}
		}
	})
	if err != nil {
		w.Note("INTERNAL: " + err.Error())
		return
	}
	if hasVariant(variants, gen.TS) {
		tsRunBatch(w, b, all)
	}
	for _, o := range all {
		genJudge(w, id, o, variants)
	}
}

func hasVariant(vs []string, v string) bool {
	for _, x := range vs {
		if x == v {
			return true
		}
	}
	return false
}

// genJudge applies the oracle of check id to the observations of one grammar.
func genJudge(w *Worker, id string, o *obs, variants []string) {
	w.Count("evaluations", 1)
	key := o.c.Spec.Key()
	gc := &GCase{Origin: "gen", Extra: mustJSON(o.c)}
	violated := false
	bad := func(kind, variant, in, msg string, detail map[string]interface{}) {
		if violated {
			return
		}
		violated = true
		if detail == nil {
			detail = map[string]interface{}{}
		}
		detail["grammar_text"] = o.d.Source(gen.Go, "p")
		detail["input"] = in
		detail["variant"] = variant
		w.Violate(id+"|gen-"+kind+"|"+variant+"|"+key, fmt.Sprintf("%s (generated %s parser): grammar [%s], input %q: %s", kind, variant, key, in, msg), gc, detail)
	}
	e := ref.NewEarley(o.g)
	type inInfo struct {
		member   bool
		firstBad int // index of the first token (end marker = len) that cannot continue a sentence; -1 if member
	}
	infos := make([]inInfo, len(o.inputs))
	var longRef *lrm.Machine
	for i, in := range o.inputs {
		toks := o.toks(in)
		if len(toks) > 400 {
			// Earley is cubic: inputs of thousands of tokens (only given to conflict-free family grammars)
			// are classified by the reference LR table, which for an LALR(1) grammar accepts exactly the
			// sentences and reports the error before shifting the first bad token
			if !o.tbl.ConflictFree {
				infos[i].member, infos[i].firstBad = false, -2 // not judged
				continue
			}
			if longRef == nil {
				longRef = refMachine(o.g, o.tbl)
			}
			c := lrm.Config{St: []int{0}, Sym: []int{o.g.EOF()}}
			fbLong := -1
			for p := 0; p <= len(toks); p++ {
				la := o.g.EOF()
				if p < len(toks) {
					la = toks[p]
					if la < 0 {
						fbLong = p
						break
					}
				}
				next, sr := longRef.Step(c, la, 4000+2*len(toks))
				if sr.Out == lrm.Accepted {
					break
				}
				if sr.Out != lrm.Shifted {
					fbLong = p
					break
				}
				c = next
			}
			infos[i].member, infos[i].firstBad = fbLong < 0, fbLong
			continue
		}
		ch := e.Start()
		fb := -1
		for p, t := range toks {
			if t < 0 || !e.CanShift(ch, t) {
				fb = p
				break
			}
			ch, _ = e.Step(ch, t)
		}
		if fb < 0 {
			if e.Accepts(ch) {
				infos[i].member = true
			} else {
				fb = len(toks)
			}
		}
		infos[i].firstBad = fb
	}
	dense := lrm.Dense(o.vw.V)
	packed := packedIfIntact(w, o.vw.V)
	nontrivial := false
	var refM *lrm.Machine
	if id == "C06" && !o.tbl.ConflictFree && o.tbl.AllJudged() {
		refM = refMachine(o.g, o.tbl)
	}
	for _, v := range variants {
		it := o.items[v]
		if it == nil {
			continue
		}
		if it.GenDiag != "" {
			w.Count("gen_generator_refused", 1)
			if id == "C16" || id == "C08" {
				bad("generator-refused", v, "", "yaccgo generates the other variants but refuses this one: "+it.GenDiag, nil)
			}
			continue
		}
		if it.BuildErr != "" {
			w.Count("gen_uncompilable", 1)
			w.SetAdd("uncompilable", v+": "+it.BuildErr)
			if id == "C16" {
				bad("does-not-compile", v, "", it.BuildErr, nil)
			}
			continue
		}
		runs := o.runs[v]
		if len(runs) != len(o.inputs) {
			if v == gen.TS && len(runs) == 0 {
				w.Count("gen_ts_not_run", 1)
				continue
			}
			w.Note(fmt.Sprintf("INTERNAL: %d results for %d inputs (%s)", len(runs), len(o.inputs), v))
			continue
		}
		m := dense
		if packed != nil && !gen.IsUnpack(v) && v != gen.TS {
			m = packed
		}
		for i, in := range o.inputs {
			r := runs[i]
			if r.Class == "not-run" {
				w.Count("gen_not_run_after_hang", 1)
				continue
			}
			w.Count("gen_runs", 1)
			// conformance with the model (binding, not a verdict)
			var p rt.Result
			if o.loose || (o.d.InfFirst && v == gen.TS) {
				p = *r // no model run: judged below without it
			} else {
				p = o.predict(m, in)
			}
			w.Count("gen_model_runs", 1)
			w.Count("gen_model_steps", int64(p.Fetches+len(p.Reds)))
			if v == gen.TS {
				p = tsExpect(p)
			}
			if o.d.Shape == gen.PlainCopy {
				p.Reds = nil
			}
			if o.d.Shape == gen.Bare {
				// rules without an action block do not record their reduction
				var kept []rt.Red
				for _, rd := range p.Reds {
					if !gen.IsBare(gen.Bare, rd.Rule, o.d.Spec.Rules[rd.Rule-1]) {
						kept = append(kept, rd)
					}
				}
				p.Reds = kept
			}
			if p.Class == r.Class && (p.Class == "loop" || p.Class == "crash" || (p.Fetches == r.Fetches && sameReds(p.Reds, r.Reds, true) && (p.Class != "accept" || (p.N == r.N && p.S == r.S)))) {
				w.Count("gen_traces_validated", 1)
			} else {
				w.Count("gen_model_mismatch", 1)
				w.SetAdd("model_mismatch_samples", fmt.Sprintf("%s %s %q: model %s f=%d reds=%v / generated %s f=%d reds=%v %s", key, v, in, p.Class, p.Fetches, p.Reds, r.Class, r.Fetches, r.Reds, r.Panic))
			}
			if r.Class == "accept" {
				nontrivial = true
			}
			switch id {
			case "C01":
				if r.Class == "accept" {
					if _, msg := o.evalDerivation(in, r.Reds, true); msg != "" {
						bad("invalid-derivation", v, in, msg, map[string]interface{}{"reductions": r.Reds})
					} else if !infos[i].member {
						bad("accepts-non-sentence", v, in, "accepted, but the grammar does not derive this token string (Earley)", nil)
					}
				}
			case "C02":
				if o.tbl.ConflictFree && infos[i].member && r.Class != "accept" {
					bad("sentence-rejected", v, in, "the grammar is LALR(1) and derives this string, the parser answers "+r.Class+" "+r.Panic, nil)
				}
			case "C06":
				if r.Class == "crash" || r.Class == "nil" || r.Class == "hang" {
					bad("undocumented-failure", v, in, "the parser fails with "+r.Class+": "+r.Panic, nil)
				} else if refM != nil && r.Class == "accept" && refVerdict(refM, o, in) == lrm.Rejected {
					bad("error-by-declaration-not-reported", v, in, "with the declared precedence and associativity this input is a syntax error, but the parser returns a result", nil)
				} else if o.tbl.ConflictFree && !infos[i].member {
					if r.Class != "syntax-error" {
						bad("non-sentence-not-rejected", v, in, "not a sentence, but the parser answers "+r.Class, nil)
					} else if r.Fetches != infos[i].firstBad+1 {
						bad("error-not-at-first-bad-token", v, in, fmt.Sprintf("the first token that cannot continue a sentence is number %d (0-based, end marker included); the parser had requested %d tokens when it reported the error (expected %d)", infos[i].firstBad, r.Fetches, infos[i].firstBad+1), nil)
					}
				}
			case "C07":
				if o.d.InfFirst && v == gen.TS {
					// the first token's number is Infinity and reaches the result through every action: NaN, reported as 0
					if r.Class == "accept" && len(in) > 0 && (r.N != 0 || r.S != "") {
						bad("wrong-value", v, in, fmt.Sprintf("the lexer gave the first token the number Infinity, which every action passes on: the result must be not-a-number (reported as 0); the parser returns n=%d s=%q, so the token's value was replaced on the way", r.N, r.S), nil)
					}
					continue
				}
				if r.Class == "accept" && (o.d.Shape == gen.PlainCopy || o.d.Shape == gen.Bare) {
					// these actions do not record reductions (so that many rules share one action text):
					// the expected value comes from the model's derivation (validated by C01)
					if p.Class == "accept" && (p.N != r.N || p.S != r.S) {
						bad("wrong-value", v, in, fmt.Sprintf("the parser returns n=%d s=%q, evaluating the actions bottom-up over the derivation gives n=%d s=%q", r.N, r.S, p.N, p.S), map[string]interface{}{"tags": o.d.Tags, "shape": o.d.Shape})
					}
				} else if r.Class == "accept" {
					want, msg := o.evalDerivation(in, r.Reds, true)
					if msg != "" {
						w.Count("c07_skipped_invalid_derivation", 1)
					} else if want.N != r.N || want.S != r.S {
						bad("wrong-value", v, in, fmt.Sprintf("the parser returns n=%d s=%q, evaluating the actions bottom-up over its own derivation gives n=%d s=%q", r.N, r.S, want.N, want.S), map[string]interface{}{"tags": o.d.Tags, "shape": o.d.Shape})
					}
				}
			}
		}
	}
	switch id {
	case "C04":
		c04GenJudge(w, o, variants, bad)
	case "C05":
		c05GenJudge(w, o, bad)
	case "C08":
		c08GenJudge(w, o, variants, bad)
	case "C17":
		c17GenJudge(w, o, variants, bad)
	}
	if nontrivial && !violated {
		w.Distinct("gen|" + key + fmt.Sprint(o.d.Tags, o.d.Shape))
	}
	w.SampleEvery(w.Out.Counters["evaluations"], 97, func() interface{} {
		return map[string]interface{}{"generated_parsers_for": key, "variants": variants, "inputs": len(o.inputs), "example_input": o.inputs[len(o.inputs)/2]}
	})
}

func c05GenJudge(w *Worker, o *obs, bad func(kind, variant, in, msg string, detail map[string]interface{})) {
	for _, pair := range [][2]string{{gen.Go, gen.GoU}, {gen.GoO, gen.GoOU}} {
		a, b := o.runs[pair[0]], o.runs[pair[1]]
		if len(a) != len(o.inputs) || len(b) != len(o.inputs) {
			continue
		}
		if da, db := o.dumps[pair[0]], o.dumps[pair[1]]; da != nil && db != nil {
			w.Count("gen_action_dumps_compared", 1)
			if fmt.Sprint(da) != fmt.Sprint(db) {
				bad("action-dump-differs", pair[0], "", fmt.Sprintf("Action(state,symbol) of the packed parser differs from the -u parser: packed %v, unpacked %v", da, db), nil)
				return
			}
			if fmt.Sprint(db) != fmt.Sprint(o.vw.V.GTable) {
				bad("action-dump-differs-from-table", pair[1], "", "Action(state,symbol) of the -u parser differs from the in-process table", nil)
				return
			}
		}
		for i, in := range o.inputs {
			x, y := a[i], b[i]
			if x.Class == "not-run" || y.Class == "not-run" {
				continue
			}
			if x.Class != y.Class || !sameReds(x.Reds, y.Reds, false) || x.N != y.N || x.S != y.S {
				bad("packed-vs-unpacked", pair[0], in, fmt.Sprintf("packed: %s reds=%v value=%d/%q; -u: %s reds=%v value=%d/%q", x.Class, x.Reds, x.N, x.S, y.Class, y.Reds, y.N, y.S), nil)
				return
			}
		}
	}
}

func c08GenJudge(w *Worker, o *obs, variants []string, bad func(kind, variant, in, msg string, detail map[string]interface{})) {
	base := ""
	for _, v := range variants {
		if len(o.runs[v]) == len(o.inputs) {
			base = v
			break
		}
	}
	if base == "" {
		return
	}
	for _, v := range variants {
		if v == base || len(o.runs[v]) != len(o.inputs) {
			continue
		}
		w.Count("variant_pairs_compared", 1)
		for i, in := range o.inputs {
			x, y := o.runs[base][i], o.runs[v][i]
			if x.Class == "not-run" || y.Class == "not-run" {
				continue
			}
			if x.Class != y.Class || !sameReds(x.Reds, y.Reds, false) || (x.Class == "accept" && (x.N != y.N || x.S != y.S)) {
				bad("variants-disagree", v, in, fmt.Sprintf("%s: %s reds=%v value=%d/%q %s; %s: %s reds=%v value=%d/%q %s", base, x.Class, x.Reds, x.N, x.S, x.Panic, v, y.Class, y.Reds, y.N, y.S, y.Panic), nil)
				return
			}
		}
	}
}

func pow(b, e int) int {
	r := 1
	for i := 0; i < e; i++ {
		r *= b
	}
	return r
}

// refVerdict runs the reference machine on a complete input.
// refRun runs the reference table (every conflict resolved as C04 prescribes)
// on an input and returns the rules it reduces by, in order, and the outcome.
// An unknown token is an error in every state (no reduction is made for it).
func refRun(m *lrm.Machine, o *obs, in string) ([]int, lrm.Outcome) {
	toks := o.toks(in)
	c := lrm.Config{St: []int{0}, Sym: []int{o.g.EOF()}}
	var reds []int
	pos := 0
	for {
		la := o.g.EOF()
		if pos < len(toks) {
			la = toks[pos]
			if la < 0 {
				la = len(o.g.Names) + 1 // a symbol the reference table has no column for
			}
		}
		next, sr := m.Step(c, la, 4000+2*len(toks))
		for _, ev := range sr.Events {
			if ev.Kind == 'r' {
				reds = append(reds, ev.Rule)
			}
		}
		if sr.Out != lrm.Shifted {
			return reds, sr.Out
		}
		c = next
		pos++
	}
}

func refVerdict(m *lrm.Machine, o *obs, in string) lrm.Outcome {
	toks := o.toks(in)
	c := lrm.Config{St: []int{0}, Sym: []int{o.g.EOF()}}
	pos := 0
	for {
		la := o.g.EOF()
		if pos < len(toks) {
			la = toks[pos]
			if la < 0 {
				return lrm.Rejected
			}
		}
		next, sr := m.Step(c, la, 4000+2*len(toks))
		if sr.Out != lrm.Shifted {
			return sr.Out
		}
		c = next
		pos++
	}
}
