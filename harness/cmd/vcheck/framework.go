package main

import (
	"encoding/json"
	"fmt"
	"hash/fnv"
	"os"
	"os/exec"
	"path/filepath"
	"runtime"
	"sort"
	"strconv"
	"strings"
	"sync"
	"syscall"
	"time"

	"verifharness/evid"
)

// verifRoot is where MANIFEST.json, known_findings.json, evidence/ and
// replays/ live: the directory run.sh was started from (so that a background
// run from a snapshot of /verif writes into the snapshot, not into /verif).
var verifRoot = func() string {
	if r := os.Getenv("VERIF_ROOT"); r != "" {
		return r
	}
	if wd, err := os.Getwd(); err == nil {
		if _, err := os.Stat(filepath.Join(wd, "properties.jsonl")); err == nil {
			return wd
		}
	}
	return "/verif"
}()

// CheckDef describes one property check.
type CheckDef struct {
	ID          string
	Level       string // evidence level
	Rule        string // how cases are enumerated, what counts as distinct & non-trivial
	Assumptions []string
	// Work enumerates this worker's share of the cases.
	Work func(w *Worker)
	// Replay re-executes one recorded case (same evaluation as in Work).
	Replay func(w *Worker, c json.RawMessage)
	// Coverage fills level-specific coverage keys from the merged counters.
	Coverage func(out *evid.WorkerOut, cov map[string]interface{})
	// Serial checks run in the coordinator only (they spawn their own tools).
	Serial bool
}

var checks = map[string]*CheckDef{}

func register(c *CheckDef) { checks[c.ID] = c }

// Worker is the context handed to a check inside a worker process.
type Worker struct {
	ID       string
	Tier     string
	Shard, N int
	From     int64
	Seed     int64
	Scratch  string
	violKeys map[string]bool
	Out      *evid.WorkerOut
	distinct map[uint64]struct{}
	prog     *os.File
	outPath  string
	maxSamp  int
	replay   bool
	curIdx   int64
}

func (w *Worker) Thorough() bool { return w.Tier == "thorough" }

// Mine says whether case number idx belongs to this worker.
func (w *Worker) Mine(idx int64) bool {
	return idx >= w.From && int(idx%int64(w.N)) == w.Shard
}

// Begin records the case about to be evaluated, so that the coordinator can
// name it if this process dies.
func (w *Worker) Begin(idx int64, c interface{}) {
	w.curIdx = idx
	if w.prog == nil {
		return
	}
	b, _ := json.Marshal(map[string]interface{}{"idx": idx, "case": c})
	b = append(b, '\n')
	w.prog.Truncate(0)
	w.prog.WriteAt(b, 0)
}

func (w *Worker) Count(name string, n int64) { w.Out.Counters[name] += n }

func (w *Worker) Max(name string, v int64) {
	if v > w.Out.Counters["max_"+name] {
		w.Out.Counters["max_"+name] = v
	}
}

// Distinct counts a non-trivial case once per distinct key.
func (w *Worker) Distinct(key string) {
	h := fnv.New64a()
	h.Write([]byte(key))
	k := h.Sum64()
	if _, ok := w.distinct[k]; !ok {
		w.distinct[k] = struct{}{}
		w.Out.Counters["distinct_nontrivial"]++
	}
}

func (w *Worker) Sample(x interface{}) {
	if len(w.Out.Samples) < w.maxSamp {
		w.Out.Samples = append(w.Out.Samples, x)
	}
}

// SampleEvery keeps x if the running counter hits the seed-rotated stride.
func (w *Worker) SampleEvery(counter int64, stride int64, x func() interface{}) {
	if stride <= 0 {
		stride = 1
	}
	if (len(w.Out.Samples) == 0 || (counter+w.Seed)%stride == 0) && len(w.Out.Samples) < w.maxSamp {
		w.Out.Samples = append(w.Out.Samples, x())
	}
}

func (w *Worker) Cap(s string)  { w.Out.Caps = append(w.Out.Caps, s) }
func (w *Worker) Note(s string) { w.Out.Notes = append(w.Out.Notes, s) }
func (w *Worker) SetAdd(set, v string) {
	for _, x := range w.Out.Sets[set] {
		if x == v {
			return
		}
	}
	if len(w.Out.Sets[set]) < 200 {
		w.Out.Sets[set] = append(w.Out.Sets[set], v)
	}
}

func (w *Worker) Violate(key, summary string, c interface{}, detail interface{}) {
	// one finding may show on many cases under ONE key (a known finding whose key does not depend
	// on the layout, say): it takes one of the retained slots, not all of them
	if w.violKeys == nil {
		w.violKeys = map[string]bool{}
	}
	if w.violKeys[key] {
		w.Count("violations_repeating_a_key", 1)
		return
	}
	w.violKeys[key] = true
	w.Out.NViolation++
	if len(w.Out.Violations) >= 40 {
		return
	}
	cb, _ := json.Marshal(c)
	w.Out.Violations = append(w.Out.Violations, evid.Violation{Property: w.ID, Key: key, Summary: summary, Case: cb, Detail: detail})
}

// Recycle hands the rest of the shard to a fresh process when this one has
// accumulated too many leaked goroutines (yaccgo's lexer goroutine stays
// blocked forever after a parse error).
func (w *Worker) Recycle(next int64) {
	if w.replay || runtime.NumGoroutine() < 4000 {
		return
	}
	w.Out.Done = false
	w.Out.Next = next
	w.flush()
	os.Exit(75)
}

func (w *Worker) flush() {
	b, _ := json.Marshal(w.Out)
	evid.Must(os.WriteFile(w.outPath, b, 0o644))
}

// ---------------------------------------------------------------------------

func workerMain(args []string) {
	// worker <id> <tier> <shard> <n> <from> <outfile> <progfile>
	if len(args) != 7 {
		fmt.Fprintln(os.Stderr, "bad worker args")
		os.Exit(3)
	}
	c := checks[args[0]]
	shard, _ := strconv.Atoi(args[2])
	n, _ := strconv.Atoi(args[3])
	from, _ := strconv.ParseInt(args[4], 10, 64)
	w := &Worker{ID: c.ID, Tier: args[1], Shard: shard, N: n, From: from, Seed: seed(), Scratch: os.Getenv("VERIF_SCRATCH"),
		Out: evid.NewWorkerOut(), distinct: map[uint64]struct{}{}, outPath: args[5], maxSamp: 6}
	var err error
	w.prog, err = os.OpenFile(args[6], os.O_CREATE|os.O_RDWR|os.O_TRUNC, 0o644)
	evid.Must(err)
	c.Work(w)
	w.Out.Done = true
	w.flush()
}

func replayMain(id string, casePath string, outPath string) {
	c := checks[id]
	b, err := os.ReadFile(casePath)
	evid.Must(err)
	w := &Worker{ID: c.ID, Tier: tier(), N: 1, Seed: seed(), Scratch: os.Getenv("VERIF_SCRATCH"),
		Out: evid.NewWorkerOut(), distinct: map[uint64]struct{}{}, outPath: outPath, maxSamp: 6, replay: true}
	c.Replay(w, b)
	w.Out.Done = true
	w.flush()
}

func seed() int64 {
	s, _ := strconv.ParseInt(os.Getenv("VERIF_SEED"), 10, 64)
	if s < 0 {
		s = -s
	}
	return s
}

func tier() string {
	if t := os.Getenv("VERIF_TIER"); t == "thorough" {
		return t
	}
	return "quick"
}

type deadCase struct {
	Idx  int64           `json:"idx"`
	Case json.RawMessage `json:"case"`
}

// runReplaySub re-executes a case in a fresh process. died reports that the
// process was killed by the runtime (fatal error, fuel in a background
// goroutine, ...) rather than finishing.
func runReplaySub(id string, c json.RawMessage, scratch string, tag string) (out *evid.WorkerOut, died bool, stderrTail string) {
	cp := filepath.Join(scratch, "replay-"+tag+".case.json")
	op := filepath.Join(scratch, "replay-"+tag+".out.json")
	os.WriteFile(cp, c, 0o644)
	os.Remove(op)
	cmd := exec.Command(os.Args[0], "replaycase", id, cp, op)
	cmd.Env = append(os.Environ(), "GOMAXPROCS=2")
	var eb strings.Builder
	cmd.Stderr = &eb
	cmd.Stdout = nil
	err := cmd.Run()
	tail := eb.String()
	if len(tail) > 1500 {
		tail = tail[len(tail)-1500:]
	}
	if err != nil {
		return nil, true, tail
	}
	b, rerr := os.ReadFile(op)
	if rerr != nil {
		return nil, true, tail
	}
	o := evid.NewWorkerOut()
	if json.Unmarshal(b, o) != nil {
		return nil, true, tail
	}
	return o, false, tail
}

func coordinator(id, tr string) int {
	c := checks[id]
	if c == nil {
		fmt.Fprintf(os.Stderr, "unknown check %q\n", id)
		return 3
	}
	start := time.Now()
	scratch := os.Getenv("VERIF_SCRATCH")
	if scratch == "" {
		var err error
		scratch, err = os.MkdirTemp("", "vcheck-")
		evid.Must(err)
		defer os.RemoveAll(scratch)
		os.Setenv("VERIF_SCRATCH", scratch)
	}
	os.Setenv("VERIF_TIER", tr)
	nw := runtime.NumCPU()
	if s := os.Getenv("VERIF_WORKERS"); s != "" {
		nw, _ = strconv.Atoi(s)
	}
	if nw < 1 {
		nw = 1
	}
	if c.Serial {
		nw = 1
	}
	deadline := 1500 * time.Second
	if tr == "thorough" {
		deadline = 4 * time.Hour
	}
	if s := os.Getenv("VERIF_DEADLINE_S"); s != "" {
		d, _ := strconv.Atoi(s)
		deadline = time.Duration(d) * time.Second
	}
	total := evid.NewWorkerOut()
	var mu sync.Mutex
	var wg sync.WaitGroup
	stop := make(chan struct{})
	timedOut := false
	timer := time.AfterFunc(deadline, func() { mu.Lock(); timedOut = true; mu.Unlock(); close(stop) })
	defer timer.Stop()
	for sh := 0; sh < nw; sh++ {
		wg.Add(1)
		go func(sh int) {
			defer wg.Done()
			from := int64(0)
			gen := 0
			deaths := 0
			for {
				gen++
				outp := filepath.Join(scratch, fmt.Sprintf("w%d-%d.out.json", sh, gen))
				progp := filepath.Join(scratch, fmt.Sprintf("w%d.prog.json", sh))
				cmd := exec.Command(os.Args[0], "worker", id, tr, strconv.Itoa(sh), strconv.Itoa(nw), strconv.FormatInt(from, 10), outp, progp)
				cmd.Env = append(os.Environ(), "GOMAXPROCS=1")
				cmd.SysProcAttr = &syscall.SysProcAttr{Pdeathsig: syscall.SIGKILL}
				if c.Serial {
					cmd.Env = os.Environ()
					cmd.Stdout = os.Stderr
				}
				var eb strings.Builder
				cmd.Stderr = &eb
				if c.Serial {
					cmd.Stderr = os.Stderr
				}
				evid.Must(cmd.Start())
				done := make(chan error, 1)
				go func() { done <- cmd.Wait() }()
				var err error
				select {
				case err = <-done:
				case <-stop:
					cmd.Process.Kill()
					<-done
					mu.Lock()
					total.Caps = append(total.Caps, fmt.Sprintf("deadline of %s reached: shard %d stopped", deadline, sh))
					mu.Unlock()
					return
				}
				o := evid.NewWorkerOut()
				if b, rerr := os.ReadFile(outp); rerr == nil {
					json.Unmarshal(b, o)
				}
				os.Remove(outp)
				mu.Lock()
				total.Merge(o, 12, 200)
				mu.Unlock()
				if err == nil && o.Done {
					return
				}
				code := -1
				if ee, ok := err.(*exec.ExitError); ok {
					code = ee.ExitCode()
				}
				if code == 75 && !o.Done {
					from = o.Next
					continue
				}
				if code == 3 {
					fmt.Fprintf(os.Stderr, "worker %d: internal error\n%s\n", sh, eb.String())
					mu.Lock()
					total.Notes = append(total.Notes, "INTERNAL: worker reported an internal error")
					mu.Unlock()
					return
				}
				// the worker died: find the case, confirm, go on after it
				var dc deadCase
				b, _ := os.ReadFile(progp)
				if json.Unmarshal(b, &dc) != nil || dc.Case == nil {
					tail := eb.String()
					if len(tail) > 3000 {
						tail = tail[len(tail)-3000:]
					}
					fmt.Fprintf(os.Stderr, "worker %d died (exit %d) before naming a case:\n%s\n", sh, code, tail)
					mu.Lock()
					total.Notes = append(total.Notes, "INTERNAL: worker died before naming a case")
					mu.Unlock()
					return
				}
				// the first deaths of a shard are confirmed by re-running the case
				// alone; later ones share the mechanism and are recorded as they are
				died, tail := true, eb.String()
				if len(tail) > 1500 {
					tail = tail[len(tail)-1500:]
				}
				if deaths < 3 {
					_, died, tail = runReplaySub(id, dc.Case, scratch, fmt.Sprintf("dead-%d-%d", sh, gen))
				}
				deaths++
				mu.Lock()
				if died {
					why := classifyDeath(tail)
					total.NViolation++
					total.Violations = append(total.Violations, evid.Violation{Property: id,
						Key:     "process-death|" + why + "|" + string(dc.Case),
						Summary: "yaccgo code killed the process (" + why + ") on this case, twice in a row",
						Case:    dc.Case, Detail: map[string]string{"stderr_tail": tail}})
				} else {
					total.Notes = append(total.Notes, fmt.Sprintf("INTERNAL: worker %d died on case %d (exit %d) but the case does not kill a fresh process", sh, dc.Idx, code))
					fmt.Fprintf(os.Stderr, "worker %d died (exit %d), not reproducible:\n%s\n", sh, code, eb.String())
				}
				mu.Unlock()
				from = dc.Idx + 1
			}
		}(sh)
	}
	wg.Wait()

	internal := false
	for _, n := range total.Notes {
		if strings.HasPrefix(n, "INTERNAL") {
			internal = true
		}
	}
	// confirm violations by re-execution, classify against known findings
	kf, err := evid.LoadFindings(filepath.Join(verifRoot, "known_findings.json"))
	evid.Must(err)
	sort.SliceStable(total.Violations, func(i, j int) bool { return total.Violations[i].Key < total.Violations[j].Key })
	observedKnown := map[string]bool{}
	var fresh []evid.Violation
	seenKey := map[string]bool{}
	for _, v := range total.Violations {
		if seenKey[v.Key] {
			continue
		}
		seenKey[v.Key] = true
		if k := kf.Open(v); k != nil {
			observedKnown[k.Key] = true
			continue
		}
		fresh = append(fresh, v)
	}
	// violations beyond the retained ones cannot be matched one by one; they
	// count as new unless every retained one is known and none was dropped
	dropped := total.NViolation - int64(len(total.Violations))
	reported := 0
	confirmed := 0
	for i, v := range fresh {
		if i < 5 && !strings.HasPrefix(v.Key, "process-death|") {
			o, died, tail := runReplaySub(id, v.Case, scratch, fmt.Sprintf("confirm-%d", i))
			ok := false
			if !died {
				for _, rv := range o.Violations {
					if rv.Key == v.Key {
						ok = true
					}
				}
			}
			if !ok {
				fmt.Fprintf(os.Stderr, "INTERNAL: violation %q did not reproduce on re-execution (died=%v)\n%s\n", v.Key, died, tail)
				internal = true
				continue
			}
			confirmed++
		}
		p, werr := evid.WriteReplay(verifRoot, v)
		evid.Must(werr)
		if reported < 25 {
			fmt.Printf("VIOLATION property=%s replay=%s\n", id, p)
			fmt.Printf("  %s\n", v.Summary)
		}
		reported++
	}
	for _, k := range kf.Findings {
		if k.Property == id && k.Status == "open" {
			tag := "observed in this run"
			if !observedKnown[k.Key] {
				tag = "not reached in this run"
			}
			fmt.Printf("KNOWN-FINDING: property=%s %s (%s)\n", id, k.What, tag)
		}
	}

	wall := time.Since(start).Seconds()
	mu.Lock()
	to := timedOut
	mu.Unlock()
	exhaustive := !to && len(total.Caps) == 0 && !internal
	cov := map[string]interface{}{
		"evaluations":                         total.Counters["evaluations"],
		"distinct_nontrivial":                 total.Counters["distinct_nontrivial"],
		"rule":                                c.Rule,
		"samples":                             total.Samples,
		"exhaustive":                          exhaustive,
		"caps":                                total.Caps,
		"counters":                            total.Counters,
		"workers":                             nw,
		"violations_confirmed_by_reexecution": confirmed,
		"known_findings_observed":             len(observedKnown),
	}
	if len(total.Sets) > 0 {
		cov["sets"] = total.Sets
	}
	if len(total.Notes) > 0 {
		cov["notes"] = total.Notes
	}
	if c.Coverage != nil {
		c.Coverage(total, cov)
	}
	if total.Samples == nil {
		cov["samples"] = []interface{}{}
	}
	ev := &evid.Evidence{PropertyID: id, Tier: tr, Seed: seed(), Level: c.Level, Coverage: cov, Assumptions: c.Assumptions, WallS: wall,
		Violations: int64(reported)}
	evid.Must(evid.WriteEvidence(verifRoot, ev))
	fmt.Printf("%s %s: evaluations=%d distinct_nontrivial=%d violations=%d (reports by workers %d incl. known findings, dropped-beyond-cap %d) exhaustive=%v wall=%.1fs\n",
		id, tr, total.Counters["evaluations"], total.Counters["distinct_nontrivial"], reported, total.NViolation, dropped, exhaustive, wall)
	for _, k := range evid.SortedKeys(total.Counters) {
		fmt.Printf("  %-40s %d\n", k, total.Counters[k])
	}
	for _, cp := range total.Caps {
		fmt.Println("  cap:", cp)
	}
	if reported > 0 {
		return 1
	}
	if internal {
		fmt.Println("INTERNAL ERROR in the harness (see stderr); no verdict")
		return 3
	}
	return 0
}

func classifyDeath(tail string) string {
	switch {
	case strings.Contains(tail, "VERIF-FUEL-EXHAUSTED"):
		return "endless loop in a background goroutine"
	case strings.Contains(tail, "all goroutines are asleep"):
		return "deadlock"
	case strings.Contains(tail, "stack overflow") || strings.Contains(tail, "goroutine stack exceeds"):
		return "unbounded recursion"
	case strings.Contains(tail, "out of memory"):
		return "out of memory"
	}
	return "fatal error"
}
