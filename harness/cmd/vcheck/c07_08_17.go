package main

import (
	"encoding/json"
	"fmt"
	"strings"

	"verifharness/gen"
	"verifharness/gram"
	"verifharness/lrm"
	"verifharness/ref"
)

// C07, C08, C17: decided on generated parsers (E-GEN); the model supplies the
// expected run.

func registerGen(id, rule string, assumptions []string) {
	register(&CheckDef{
		ID:          id,
		Level:       "model_checking",
		Rule:        rule,
		Assumptions: assumptions,
		Work:        func(w *Worker) { genPhase(w, id) },
		Replay: func(w *Worker, raw json.RawMessage) {
			var c GCase
			if json.Unmarshal(raw, &c) == nil && c.Origin == "gen" {
				genReplay(w, id, &c)
			}
		},
		Coverage: func(out *evidOut, cov map[string]interface{}) {
			cov["states"] = out.Counters["gen_model_runs"]
			cov["transitions"] = out.Counters["gen_model_steps"]
			cov["traces_validated_against_impl"] = out.Counters["gen_traces_validated"]
			cov["explanation"] = "states = model runs (one per (parser, input string): all strings over the grammar's token characters and one unknown character up to the length bound); transitions = shift/reduce steps of those runs; traces validated = runs of compiled generated parsers whose verdict class, reductions with lexer-fetch counts, fetch total and value equal the model run"
		},
	})
}

func init() {
	common := []string{
		"generated parsers come from the real generator run in-process (canonical map order) with harness-owned prologue, epilogue (GetToken, recorder) and actions; Go variants are compiled with the Go toolchain into one driver binary; TypeScript is type-erased by harness/tsrun (no tsc in the image) and run under Node in separate vm contexts",
		"all strings over the grammar's token characters plus one character the lexer answers with an unknown token code, up to length 4 (quick) / 5 (thorough)",
	}
	registerGen("C08", "conformance corpus (families, every rule set of G(2,2,2,<=2) and G(1,2,3,<=2), fixed-stride selection of the tier classes) x {go, go -u, go -o, go -o -u, typescript} x all strings up to the bound: verdict class, reduction sequence and value must be pairwise equal; non-trivial = grammar with at least one accepted string; distinct = distinct rule sets", common)
	registerGen("C07", "corpus grammars x union-field assignments (all string, all int, each single symbol switched to int / to untagged) x action shapes (all $i, only $1, only $n, no action, alternately assigning/not assigning $$, plain `$$ = $1` copies sharing one action text) x all accepted strings up to the bound x {go, go -o -u, typescript}: the value returned by Parser() must equal bottom-up evaluation of the harness-chosen actions over the parser's own (derivation-checked) reductions; token values encode character and position, rule values encode rule number and argument order, so a wrong slot or field changes the result; non-trivial = (grammar, assignment, shape) with at least one accepted string", common)
	registerGen("C17", "corpus x Go variants (global and -o, packed and -u, and the default parser generated together with the -g graph) with IsTrace = true x all strings up to the bound (rejected ones up to the error): the stdout lines must be, in order, exactly the lines predicted from the model run and the SPECIFICATION's rule text and symbol names (one `Shift X, push state q` per shift and per goto, one `look ahead L, use Reduce:A -> alpha, go to state q` per reduction), and the reductions named must be the reductions executed by the actions", common)
}

// c07Corpus expands a part of the corpus with tag assignments and action shapes.
func c07Corpus(w *Worker, base []*genCase) []*genCase {
	var out []*genCase
	stride := 14
	if w.Thorough() {
		stride = 1
	}
	n := 0
	for i, c := range base {
		fam := strings.HasPrefix(c.Origin, "family:")
		if !fam && i%stride != 0 {
			continue
		}
		n++
		syms := append(c.Spec.Terminals(), c.Spec.Nonterminals()...)
		add := func(t gen.Tags, sh gen.ActionShape) {
			out = append(out, &genCase{Origin: c.Origin, Spec: c.Spec, Tags: t, Shape: sh})
		}
		alls := gen.AllS(c.Spec)
		add(alls, gen.UseAll)
		if fam {
			// the same with a nested parse inside every action (values of the outer parse must not change)
			out = append(out, &genCase{Origin: c.Origin + " [nested parses]", Spec: c.Spec, Tags: alls, Shape: gen.UseAll, Nested: true})
		}
		alln := gen.Tags{}
		for _, s := range syms {
			alln[s] = "n"
		}
		add(alln, gen.UseAll)
		full := fam || w.Thorough() // quick: class grammars get a reduced list
		for _, s := range syms {
			for _, tag := range []string{"n", ""} {
				if tag == "" && !full {
					continue
				}
				t := gen.Tags{}
				for k, v := range alls {
					t[k] = v
				}
				t[s] = tag
				add(t, gen.UseAll)
				if tag == "n" {
					add(t, gen.PlainCopy)
					// the same with every named token re-declared (untagged, numbered) on a later line
					out = append(out, &genCase{Origin: c.Origin, Spec: c.Spec, Tags: t, Shape: gen.UseAll, Renumber: true})
				}
			}
		}
		// nonterminals int, terminals string (and the converse)
		for _, flip := range []bool{false, true} {
			t := gen.Tags{}
			for _, s := range c.Spec.Terminals() {
				t[s] = map[bool]string{false: "s", true: "n"}[flip]
			}
			for _, s := range c.Spec.Nonterminals() {
				t[s] = map[bool]string{false: "n", true: "s"}[flip]
			}
			add(t, gen.PlainCopy)
		}
		add(alls, gen.Mixed)
		add(alln, gen.Mixed)
		if full {
			add(alls, gen.UseFirst)
			add(alls, gen.UseLast)
			add(alln, gen.UseLast)
			add(alls, gen.NoAction)
			if fam && ref.FromSpec(c.Spec).LR0().Table().ConflictFree {
				// some rules without any action block: their value stays the zero value
				add(alls, gen.Bare)
				add(alln, gen.Bare)
			}
		}
	}
	// references written with a leading zero in rules of twelve symbols: $010 is the tenth symbol
	long := gram.Parse("S", []string{"TA", "TB"}, "S: X | S X ; X: TA TB TA TA TB TB TA TB TA TB TA Y ; Y: TB | ")
	for _, tag := range []string{"s", "n"} {
		t := gen.Tags{}
		for _, x := range append(long.Terminals(), long.Nonterminals()...) {
			t[x] = tag
		}
		out = append(out, &genCase{Origin: "family:twelve-symbols [references with a leading zero]", Spec: long, Tags: t, Shape: gen.Padded})
	}
	// a token value that is no finite number (TypeScript): it must arrive in the actions as the lexer gave it
	{
		e2 := gram.Parse("E", []string{"TA"}, "E: E '+' T | T ; T: T '*' F | F ; F: '(' E ')' | TA")
		t := gen.Tags{}
		for _, x := range append(e2.Terminals(), e2.Nonterminals()...) {
			t[x] = "n"
		}
		out = append(out, &genCase{Origin: "family:slr-expr [first token carries Infinity]", Spec: e2, Tags: t, Shape: gen.UseAll, InfFirst: true})
	}
	// the int member of the %union under everyday names (it must not meet a field of the parser's own records)
	expr := gram.Parse("E", []string{"TA"}, "E: E '+' T | T ; T: T '*' F | F ; F: '(' E ')' | TA")
	for _, name := range []string{"pos", "val", "line", "col", "off", "sym", "state", "index", "typ", "text", "num", "str", "node", "list",
		"name", "id", "tok", "kind", "start", "end", "value", "next", "prev", "top", "data", "loc", "ty", "act", "depth", "count", "code", "lookahead",
		"Yystate", "YySymIndex"} {
		t := gen.Tags{}
		for _, x := range append(expr.Terminals(), expr.Nonterminals()...) {
			t[x] = "n"
		}
		out = append(out, &genCase{Origin: "family:slr-expr [union member called " + name + "]", Spec: expr, Tags: t, Shape: gen.UseAll, FieldN: name})
	}
	if w.Shard == 0 {
		w.Count("c07_base_grammars", int64(n))
	}
	return out
}

// ---------------------------------------------------------------------------
// C17

func traceName(n string) string {
	// generated code prints parser.RemoveTempName(sy.Name): 'x' followed by a blank for literals
	if gram.IsLit(n) {
		return "'" + string(gram.LitRune(n)) + "' "
	}
	return n
}

func (o *obs) traceSym(ysym int) string {
	switch ysym {
	case 0:
		return "start"
	case 1:
		return "$"
	}
	return traceName(o.g.Names[o.vw.SymToRef[ysym]])
}

// expectedTrace predicts the trace lines of a run from the model.
func (o *obs) expectedTrace(m *lrm.Machine, in string) []string {
	toks := o.toks(in)
	c := lrm.Initial()
	var lines []string
	pos := 0
	for {
		la := 1
		if pos < len(toks) {
			if toks[pos] < 0 {
				la = 0
			} else {
				la = o.vw.RefToSym[toks[pos]]
			}
		}
		next, sr := m.Step(c, la, 4000+2*len(toks))
		for _, ev := range sr.Events {
			switch ev.Kind {
			case 's', 'g':
				lines = append(lines, fmt.Sprintf("Shift %s, push state %d", o.traceSym(ev.Sym), ev.State))
			case 'r':
				r := o.c.Spec.Rules[ev.Rule-1]
				rhs := ""
				for _, x := range r.R {
					rhs += traceName(x) + " "
				}
				lines = append(lines, fmt.Sprintf("look ahead %s, use Reduce:%s -> %s, go to state %d", o.traceSym(ev.Look), traceName(r.L), rhs, ev.State))
			}
		}
		c = next
		if sr.Out != lrm.Shifted {
			return lines
		}
		pos++
	}
}

func normLine(s string) string { return strings.Join(strings.Fields(s), " ") }

func c17GenJudge(w *Worker, o *obs, variants []string, bad func(kind, variant, in, msg string, detail map[string]interface{})) {
	dense := lrm.Dense(o.vw.V)
	packed := packedIfIntact(w, o.vw.V)
	// "a legal run of the grammar's LR automaton": where the declarations decide every cell, the
	// reference table says which reductions a legal run makes on each input, rejected ones included
	var refM *lrm.Machine
	if o.tbl.AllJudged() {
		refM = refMachine(o.g, o.tbl)
	}
	for _, v := range variants {
		runs := o.runs[v]
		if len(runs) != len(o.inputs) {
			continue
		}
		m := dense
		if packed != nil && !gen.IsUnpack(v) {
			m = packed
		}
		for i, in := range o.inputs {
			r := runs[i]
			if r.Class == "crash" && refM != nil && o.d.Shape != gen.PlainCopy && !strings.Contains(in, "\x01") {
				// a run that dies: the reductions it traced and executed before that must still be the
				// first reductions of the legal run on this input
				legal, out := refRun(refM, o, in)
				if out != lrm.Looped {
					w.Count("crashed_runs_compared_with_reference_automaton", 1)
					ok := len(r.Reds) <= len(legal)
					for k := 0; ok && k < len(r.Reds); k++ {
						ok = legal[k] == r.Reds[k].Rule
					}
					if !ok {
						bad("run-not-legal", v, in, fmt.Sprintf("the parser reduced by rules %v (and traced them) before it died with %q; the LR automaton of the grammar reduces by %v on this input", r.Reds, r.Panic, legal), map[string]interface{}{"trace": r.Trace})
						return
					}
				}
			}
			if r.Class == "loop" || r.Class == "crash" {
				continue
			}
			if refM != nil && o.d.Shape != gen.PlainCopy {
				legal, out := refRun(refM, o, in)
				if out != lrm.Looped {
					w.Count("runs_compared_with_reference_automaton", 1)
					same := len(legal) == len(r.Reds)
					for k := 0; same && k < len(legal); k++ {
						same = legal[k] == r.Reds[k].Rule
					}
					if !same {
						bad("run-not-legal", v, in, fmt.Sprintf("the parser reduced by rules %v (and traced them); the LR automaton of the grammar reduces by %v on this input", r.Reds, legal), map[string]interface{}{"trace": r.Trace})
						return
					}
				}
			}
			want := o.expectedTrace(m, in)
			var got []string
			nestedDepth := 0
			for _, l := range strings.Split(r.Trace, "\n") {
				switch strings.TrimSpace(l) {
				case "<nested-parse>":
					nestedDepth++
					continue
				case "</nested-parse>":
					nestedDepth--
					continue
				}
				if nestedDepth == 0 && strings.TrimSpace(l) != "" {
					got = append(got, l)
				}
			}
			w.Count("trace_lines_compared", int64(len(got)))
			// the reductions named in the trace must be the reductions executed
			nr := 0
			for _, l := range got {
				if strings.Contains(l, "use Reduce:") {
					nr++
				}
			}
			if nr != len(r.Reds) {
				bad("trace-reductions-differ-from-executed", v, in, fmt.Sprintf("%d reductions were executed, the trace shows %d", len(r.Reds), nr), map[string]interface{}{"trace": got})
				return
			}
			if len(got) != len(want) {
				bad("trace-length", v, in, fmt.Sprintf("the trace has %d lines, the run has %d actions", len(got), len(want)), map[string]interface{}{"trace": got, "expected": want})
				return
			}
			for k := range got {
				if normLine(got[k]) != normLine(want[k]) {
					bad("trace-line", v, in, fmt.Sprintf("line %d is %q, the action performed was %q", k+1, got[k], want[k]), map[string]interface{}{"trace": got, "expected": want})
					return
				}
			}
		}
	}
}
