package main

import (
	"context"
	"encoding/json"
	"fmt"
	"os"
	"os/exec"
	"path/filepath"
	"sort"
	"strings"
	"syscall"
	"time"

	"verifharness/evid"
	"verifharness/gen"
	"verifharness/gram"
	"verifharness/ygo"
)

// C13: generation terminates on every input text.

var fragments = []string{
	"%token", "%left", "%right", "%nonassoc", "%type", "%union {", "%union", "%{", "%}", "%%", "%prec", "%start",
	"<", ">", "A", "B", "'a'", "'ab", "'", "\"s\"", "\"", "1", "-", ":", "|", ";", "{x}", "{", "}",
	"/*", "*/", "//", "\n", "$$", "$1", "$", "@", "\\", "`",
	// beyond ASCII: an Arabic-Indic digit, a Latin-1 letter, an invalid UTF-8 byte, NUL, carriage return
	"\u0663", "\u00e9", "\xff", "\x00", "\r",
}

const textFuel = 10_000_000

// fuelFor scales the budget with the input: terminating runs of this text
// space use at most 470 loop iterations per input byte (+20), see
// max_ticks_per_byte_terminating in the evidence; the budget is 53x that.
func fuelFor(text string) int64 {
	f := int64(25000) * int64(len(text)+20)
	if f < 750_000 {
		f = 750_000
	}
	return f
}

func init() {
	register(&CheckDef{
		ID:    "C13",
		Level: "exploration",
		Rule: "text space of the front end: (1) every sequence of at most 3 (quick) / 4 (thorough) fragments from a 43-piece lexical alphabet, in the thorough tier also every sequence of exactly 5 over the 16 structural fragments (1 048 576 texts) (directives, brackets, quotes, comment marks, identifiers, numbers, separators; joined by blanks), (2) every byte prefix of every corpus grammar file (repository examples + rendered families), (3) every single-token deletion, duplication and replacement by each alphabet fragment at every token position of every corpus file; each text goes through the real ParseAndBuild (and, when that succeeds, the Go and TypeScript generators and the debug listing) on the overlay build in which every loop iteration burns fuel; " +
			"a run that exhausts its fuel (25 000 loop iterations per input byte, at least 750 000), a spinning background goroutine or a runtime deadlock is a hang; every flagged text is confirmed on the native CLI binary (must still be running after 10 s); non-trivial = text that gets past the lexer's first token; distinct = distinct texts",
		Assumptions: []string{
			"fuel budget is at least 50x the largest consumption per input byte of any terminating run in the same space (reported as max_ticks_per_byte_terminating); loops are instrumented by the overlay rewriter in all repository packages",
			"exhaustive refers to the fragment space / prefixes / single edits, not to all byte strings",
		},
		Work: func(w *Worker) { c13Work(w) },
		Replay: func(w *Worker, raw json.RawMessage) {
			var c textCase
			if json.Unmarshal(raw, &c) == nil {
				c13Eval(w, &c)
			}
		},
	})
}

type textCase struct {
	Origin string `json:"origin"`
	Text   string `json:"text"`
	// BigFuel: the text is a grammar that legitimately works up to the 2000-state limit
	// (quadratic in the number of states): the fuel is a fixed 400 M iterations (the unchanged code needs 16 M)
	BigFuel bool `json:"big_fuel,omitempty"`
	// Graph: run the real command-line tool with `-g` (the automaton drawing) on the text. That path
	// hands the graph text to an external program; waiting for another process burns no fuel, so it
	// is observed the way the property defines it: completion of the CLI under a generous deadline
	Graph bool `json:"graph,omitempty"`
}

// corpusFiles returns the grammar texts used for prefixes and edits.
func corpusFiles() []gram.Named2 {
	var out []gram.Named2
	ents, _ := filepath.Glob(repoDir() + "/examples/*.y")
	sort.Strings(ents)
	for _, p := range ents {
		b, err := os.ReadFile(p)
		if err == nil {
			out = append(out, gram.Named2{Name: "examples/" + filepath.Base(p), Text: string(b)})
		}
	}
	// "the n-th token from the end is TA": 2n+4 rules, about 2^n LR(0) states - far beyond the
	// built-in limit of 2000 states for n >= 12; yaccgo must stop with its diagnostic, not build them all
	for _, n := range []int{12, 16, 20} {
		sp := &gram.Spec{Start: "S", Tokens: []gram.TokDecl{{Name: "TA"}, {Name: "TB"}}}
		sp.Rules = append(sp.Rules, gram.Rule{L: "S", R: []string{"TA", "S"}}, gram.Rule{L: "S", R: []string{"TB", "S"}}, gram.Rule{L: "S", R: []string{"TA", "N1"}})
		for i := 1; i < n; i++ {
			next := fmt.Sprintf("N%d", i+1)
			sp.Rules = append(sp.Rules, gram.Rule{L: fmt.Sprintf("N%d", i), R: []string{"TA", next}}, gram.Rule{L: fmt.Sprintf("N%d", i), R: []string{"TB", next}})
		}
		sp.Rules = append(sp.Rules, gram.Rule{L: fmt.Sprintf("N%d", n), R: nil})
		out = append(out, gram.Named2{Name: fmt.Sprintf("exponential-automaton-%d", n), Text: sp.Render(), NoEdits: true})
	}
	// a ladder of 45 levels, two alternatives per level that both begin with the next level's nonterminal
	// (45 rules, under 1 KB; anything that explores the alternatives separately needs 2^45 steps)
	{
		var b strings.Builder
		b.WriteString("%token X Y Z\n%start a0\n%%\n")
		for i := 0; i < 44; i++ {
			fmt.Fprintf(&b, "a%d : a%d X | a%d Y ;\n", i, i+1, i+1)
		}
		b.WriteString("a44 : Z ;\n")
		out = append(out, gram.Named2{Name: "ladder-45", Text: b.String(), NoEdits: true})
	}
	// a union with two members; nonterminals without %type whose unit rules lead to symbols of different tags
	out = append(out, gram.Named2{Name: "untyped-nonterminals-over-two-tags", Text: "%{\npackage p\n%}\n%union {\n\tnum int\n\tstr string\n}\n%token <num> NUM\n%token <str> STR\n%type <num> list\n%start list\n%%\n" +
		"list : item { $$ = 1 }\n  | list item { $$ = $1 + 1 }\n  ;\nitem : value\n  | a\n  ;\nvalue : NUM\n  | STR\n  ;\na : b\n  | c\n  ;\nb : NUM ;\nc : STR ;\n%%\n" +
		"func GetToken(input string, valTy *ValType, pos *int) int { return -1 }\n"})
	for _, n := range gram.Families() {
		out = append(out, gram.Named2{Name: "family:" + n.Name, Text: n.Spec.Render()})
		if n.Name == "slr-expr" || n.Name == "ambig-expr-prec" || n.Name == "nullable-chain" {
			d := gen.Decorate(n.Spec, nil, gen.UseAll)
			text := d.Source(gen.Go, "p")
			// the program section is known exactly: everything after the second %% line of the rendering
			epi := text[strings.LastIndex(text, "\n%%\n")+len("\n%%\n"):] // the harness epilogue has %% only inside a line
			out = append(out, gram.Named2{Name: "family+actions:" + n.Name, Text: text, Epilogue: epi})
			if n.Name == "slr-expr" {
				// a program section with one line of 70 000 characters (a table pasted on one line)
				long := "\nvar bigTable = []int{" + strings.Repeat("1, ", 23400) + "2}\n"
				out = append(out, gram.Named2{Name: "family+actions:" + n.Name + "/70k-line-in-epilogue", Text: text + long, Epilogue: epi + long, NoEdits: true})
				// explicit token numbers of thirteen and nineteen digits
				bigNum := strings.Replace(text, "%token <s> TA", "%token <s> TA 3000000000000", 1)
				if bigNum != text {
					out = append(out, gram.Named2{Name: "family+actions:" + n.Name + "/token-number-3e12", Text: bigNum, Epilogue: epi, NoEdits: true})
				}
			}
			if n.Name == "ambig-expr-prec" {
				// a block comment at the beginning of the program section (prefixes end inside it)
				cm := "\n/* a block comment in the program section, with a brace { and a quote ' */\n"
				at := strings.LastIndex(text, "\n%%\n") + len("\n%%\n")
				out = append(out, gram.Named2{Name: "family+actions:" + n.Name + "/block-comment-in-epilogue", Text: text[:at] + cm + text[at:], Epilogue: cm + epi})
			}
			if n.Name == "nullable-chain" {
				// the same file with program text starting on the line of the second %% (legal yacc)
				at := strings.LastIndex(text, "\n%%\n") + len("\n%%")
				same := " /* the program section starts on this line */ var sectionLine = 1"
				out = append(out, gram.Named2{Name: "family+actions:" + n.Name + "/text-on-section-line", Text: text[:at] + same + text[at:], Epilogue: same + "\n" + epi})
			}
		}
	}
	return out
}

// splitTokens cuts a text into lexical pieces (words, single punctuation
// characters, whitespace runs) whose concatenation is the text.
func splitTokens(s string) []string {
	var out []string
	i := 0
	isWord := func(c byte) bool {
		return c == '_' || c == '%' || c == '$' || (c >= '0' && c <= '9') || (c >= 'a' && c <= 'z') || (c >= 'A' && c <= 'Z')
	}
	for i < len(s) {
		st := i
		switch {
		case s[i] == ' ' || s[i] == '\t' || s[i] == '\n':
			for i < len(s) && (s[i] == ' ' || s[i] == '\t' || s[i] == '\n') {
				i++
			}
		case isWord(s[i]):
			for i < len(s) && isWord(s[i]) {
				i++
			}
		default:
			i++
		}
		out = append(out, s[st:i])
	}
	return out
}

func c13Work(w *Worker) {
	var idx int64
	maxLen := 3
	if w.Thorough() {
		maxLen = 4
	}
	// (1) fragment sequences
	cur := make([]string, 0, maxLen)
	var rec func()
	rec = func() {
		if len(cur) > 0 {
			if w.Mine(idx) {
				c := &textCase{Origin: "fragments", Text: strings.Join(cur, " ")}
				w.Begin(idx, c)
				c13Eval(w, c)
				if idx%256 == 0 {
					w.Recycle(idx + 1)
				}
			}
			idx++
		}
		if len(cur) == maxLen {
			return
		}
		for _, f := range fragments {
			cur = append(cur, f)
			rec()
			cur = cur[:len(cur)-1]
		}
	}
	t0 := time.Now()
	rec()
	if w.Thorough() {
		// one level deeper over the 16 structural fragments (directives, brackets, quotes, comment marks)
		core := []string{"%token", "%left", "%type", "%union {", "%{", "%}", "%%", "%prec", "%start", "<", ">", "A", "'a'", "{", "/*", "\n"}
		cc := make([]string, 0, 5)
		var rec5 func()
		rec5 = func() {
			if len(cc) == 5 {
				if w.Mine(idx) {
					c := &textCase{Origin: "fragments-core-5", Text: strings.Join(cc, " ")}
					if idx%64 == 0 {
						w.Begin(idx, c)
					}
					c13Eval(w, c)
					if idx%256 == 0 {
						w.Recycle(idx + 1)
					}
				}
				idx++
				return
			}
			for _, f := range core {
				cc = append(cc, f)
				rec5()
				cc = cc[:len(cc)-1]
			}
		}
		rec5()
	}
	w.Max("phase_fragments_ms", time.Since(t0).Milliseconds())
	t0 = time.Now()
	defer func() { w.Max("phase_files_ms", time.Since(t0).Milliseconds()) }()
	// (4) the drawing option on whole files, small and large (native CLI)
	graphTexts := corpusFiles()
	for _, n := range gram.BigFamilies() {
		graphTexts = append(graphTexts, gram.Named2{Name: "family:" + n.Name, Text: n.Spec.Render()})
	}
	graphTexts = append(graphTexts, gram.Named2{Name: "trie-6x4-1557-states", Text: gram.Trie([]string{"TA", "TB", "TC", "TD", "TE", "TF"}, 4).Render()})
	for _, f := range graphTexts {
		if strings.HasPrefix(f.Name, "exponential-automaton") {
			continue // refused at the state limit before anything is drawn
		}
		if w.Mine(idx) {
			c := &textCase{Origin: "graph:" + f.Name, Text: f.Text, Graph: true}
			w.Begin(idx, c)
			c13Eval(w, c)
		}
		idx++
	}
	// (2) prefixes, (3) single edits
	for _, f := range corpusFiles() {
		if f.NoEdits {
			// only the whole text (its prefixes are small automata, covered elsewhere)
			if w.Mine(idx) {
				c := &textCase{Origin: "file:" + f.Name, Text: f.Text, BigFuel: true}
				w.Begin(idx, c)
				c13Eval(w, c)
			}
			idx++
			continue
		}
		for n := 0; n <= len(f.Text); n++ {
			if w.Mine(idx) {
				c := &textCase{Origin: "prefix:" + f.Name, Text: f.Text[:n]}
				w.Begin(idx, c)
				c13Eval(w, c)
				w.Recycle(idx + 1)
			}
			idx++
		}
		toks := splitTokens(f.Text)
		stride := 1
		if !w.Thorough() && len(toks) > 150 {
			stride = 3 // quick: every third position of the long example files
		}
		for p := 0; p < len(toks); p += stride {
			if strings.TrimSpace(toks[p]) == "" {
				continue
			}
			edits := []string{"", toks[p] + " " + toks[p]}
			edits = append(edits, fragments...)
			for _, e := range edits {
				if w.Mine(idx) {
					t := strings.Join(toks[:p], "") + e + strings.Join(toks[p+1:], "")
					c := &textCase{Origin: "edit:" + f.Name, Text: t}
					w.Begin(idx, c)
					c13Eval(w, c)
					w.Recycle(idx + 1)
				}
				idx++
			}
		}
	}
}

// graphDeadline: `generate -g` needs milliseconds on the small files and about a second on the largest
const graphDeadline = 90 * time.Second

func c13EvalGraph(w *Worker, c *textCase) {
	w.Count("native_graph_runs", 1)
	t0 := time.Now()
	alive, err := nativeRun(w, c.Text, graphDeadline, true)
	w.Max("native_graph_run_ms", time.Since(t0).Milliseconds())
	if err != nil {
		w.Note("INTERNAL: cannot run the native CLI: " + err.Error())
		return
	}
	if alive {
		w.Violate("C13|hang-with-graph|"+c.Origin, fmt.Sprintf("`yaccgo generate -g` does not finish on %s (%d bytes): still running after %s", c.Origin, len(c.Text), graphDeadline), c,
			map[string]interface{}{"origin": c.Origin, "path": "generate -g"})
	}
}

func c13Eval(w *Worker, c *textCase) {
	w.Count("evaluations", 1)
	if c.Graph {
		c13EvalGraph(w, c)
		return
	}
	fuel := fuelFor(c.Text)
	if c.BigFuel {
		fuel = 400_000_000
	}
	res := ygo.Build(c.Text, ygo.Options{Fuel: fuel})
	if c.BigFuel {
		w.Max("ticks_big_automaton", res.Ticks)
	}
	hang := res.Fuel
	path := "ParseAndBuild"
	if res.OK() {
		w.Count("texts_accepted", 1)
		w.Distinct(c.Text)
		for _, v := range []string{gen.Go, gen.TS} {
			out := filepath.Join(w.Scratch, fmt.Sprintf("c13-%d.out", w.Shard))
			lang := "go"
			if v == gen.TS {
				lang = "typescript"
			}
			r2 := ygo.Generate(lang, c.Text, out, ygo.Options{Fuel: fuel})
			os.Remove(out)
			if r2.Fuel {
				hang, path = true, "generate "+lang
			}
			w.Max("ticks_terminating", r2.Ticks)
			w.Max("ticks_per_byte_terminating", r2.Ticks/int64(len(c.Text)+20))
		}
		r3 := ygo.Build(c.Text, ygo.Options{Fuel: fuel, Debug: true})
		if r3.Fuel {
			hang, path = true, "debug"
		}
	} else if !res.Fuel {
		w.Max("ticks_terminating", res.Ticks)
		w.Max("ticks_per_byte_terminating", res.Ticks/int64(len(c.Text)+20))
		if !strings.Contains(res.Diag(), "not correct token") || res.Ticks > 60 {
			w.Distinct(c.Text)
		}
	}
	if !hang {
		w.SampleEvery(w.Out.Counters["evaluations"], 200003, func() interface{} {
			return map[string]interface{}{"origin": c.Origin, "text": c.Text, "outcome": res.Diag(), "ticks": res.Ticks}
		})
		return
	}
	// confirm on the real binary before believing it (the first hangs of
	// each worker and every replay; later ones share the mechanism)
	if nativeConfirmed < 2 || w.replay {
		alive, err := nativeStillRunning(w, c.Text, 10*time.Second)
		if err != nil {
			w.Note("INTERNAL: cannot confirm a hang on the native CLI: " + err.Error())
			return
		}
		if !alive {
			w.Note(fmt.Sprintf("INTERNAL: fuel ran out in %s on %q but the native CLI finishes within 10 s", path, c.Text))
			return
		}
		nativeConfirmed++
	}
	w.Violate("C13|hang|"+c.Text, fmt.Sprintf("yaccgo does not terminate on this text (%s spins: %d loop iterations without finishing; the native `yaccgo generate go` is still running after 10 s): %q", path, fuel, c.Text), c,
		map[string]interface{}{"text": c.Text, "path": path})
}

var nativeBin string
var nativeConfirmed int

// nativeStillRunning runs the real CLI (built without overlay) on text and
// reports whether it is still running when the deadline expires.
func nativeStillRunning(w *Worker, text string, d time.Duration) (bool, error) {
	return nativeRun(w, text, d, false)
}

func nativeRun(w *Worker, text string, d time.Duration, graph bool) (bool, error) {
	if _, err := nativeCLI(w); err != nil {
		return false, err
	}
	dir, err := os.MkdirTemp(w.Scratch, "native-")
	if err != nil {
		return false, err
	}
	defer os.RemoveAll(dir)
	in := filepath.Join(dir, "in.y")
	os.WriteFile(in, []byte(text), 0o644)
	ctx, cancel := context.WithTimeout(context.Background(), d)
	defer cancel()
	// process group + parent-death signal + CPU rlimit: a spinning yaccgo cannot outlive this worker
	args := []string{"generate", "go", in, filepath.Join(dir, "out.go")}
	if graph {
		args = []string{"generate", "-g", filepath.Join(dir, "graph.png"), "go", in, filepath.Join(dir, "out.go")}
	}
	cmd := evid.Guarded(ctx, int(d.Seconds())+30, dir, nil, nativeBin, args...) // CPU limit beyond the deadline: a spinning run reaches the deadline
	if graph {
		// the tool prints the graph text: it goes to a file, never to a pipe that nobody reads
		if f, err := os.Create(filepath.Join(dir, "stdout")); err == nil {
			defer f.Close()
			cmd.Stdout, cmd.Stderr = f, f
		}
	}
	cmd.Run()
	return ctx.Err() == context.DeadlineExceeded, nil
}

// nativeCLI builds the real command-line tool (no overlay, no build tag) from
// the working tree once per run: the workers share one binary in the run's
// scratch directory, the first one to get the lock builds it.
func nativeCLI(w *Worker) (string, error) {
	if nativeBin != "" {
		return nativeBin, nil
	}
	bin := filepath.Join(w.Scratch, "yaccgo-native-shared")
	lock, err := os.OpenFile(bin+".lock", os.O_CREATE|os.O_RDWR, 0o644)
	if err != nil {
		return "", err
	}
	defer lock.Close()
	if err := syscall.Flock(int(lock.Fd()), syscall.LOCK_EX); err != nil {
		return "", err
	}
	defer syscall.Flock(int(lock.Fd()), syscall.LOCK_UN)
	if _, err := os.Stat(bin); err != nil {
		tmp := fmt.Sprintf("%s.%d.tmp", bin, os.Getpid())
		cmd := exec.Command("go", "build", "-o", tmp, "./yaccgo")
		cmd.Dir = repoDir()
		if out, err := cmd.CombinedOutput(); err != nil {
			return "", fmt.Errorf("go build: %v %s", err, out)
		}
		if err := os.Rename(tmp, bin); err != nil {
			return "", err
		}
	}
	nativeBin = bin
	return bin, nil
}
