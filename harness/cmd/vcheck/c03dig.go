package main

import (
	"encoding/json"
	"fmt"
	"sort"

	lalr "github.com/acekingke/yaccgo/LALR"
)

// Component check of C03: lalr.Digraph must compute
// F(x) = F'(x) u U{ F(y) : x R* y } for every relation R.

type digraphCase struct {
	N    int `json:"n"`
	Bits int `json:"bits"` // adjacency matrix, row major
	Base int `json:"base"` // which base-set family
}

// base sets are built by append so that they carry realistic spare capacity
// (Union appends to its second argument: aliasing would show up here).
func digraphBase(n, fam int) map[int][]int {
	fp := map[int][]int{}
	for x := 0; x < n; x++ {
		var s []int
		switch fam {
		case 0: // singleton {10+x}
			s = append(s, 10+x)
		case 1: // shared backing array: all are prefixes of one slice
			all := []int{100, 101, 102, 103, 104, 105, 106, 107}
			s = all[:x%3]
		case 2: // two elements, overlapping between nodes
			s = append(s, 20+x%2)
			s = append(s, 30+x)
		case 3: // three appended elements: len 3, cap 4 (one spare slot), distinct per node
			s = append(s, 40+x)
			s = append(s, 50+x)
			s = append(s, 60+x)
		case 4: // five appended elements: len 5, cap 8; one element shared by all nodes
			for k := 0; k < 4; k++ {
				s = append(s, 70+10*k+x)
			}
			s = append(s, 7)
		case 5: // explicit spare capacity, singleton contents
			s = make([]int, 1, 6)
			s[0] = 200 + x
		}
		fp[x] = s
	}
	return fp
}

func c03Digraphs(w *Worker) {
	const base = int64(1) << 40 // case indexes disjoint from the grammar cases
	maxN := 3
	if w.Thorough() {
		maxN = 4
	}
	idx := base
	for n := 1; n <= maxN; n++ {
		for bits := 0; bits < 1<<(n*n); bits++ {
			for fam := 0; fam < 6; fam++ {
				if w.Mine(idx) {
					d := digraphCase{N: n, Bits: bits, Base: fam}
					w.Begin(idx, &GCase{Origin: "digraph", Extra: mustJSON(d)})
					c03OneDigraph(w, d)
				}
				idx++
			}
		}
	}
}

func mustJSON(x interface{}) json.RawMessage { b, _ := json.Marshal(x); return b }

func c03OneDigraph(w *Worker, d digraphCase) {
	w.Count("evaluations", 1)
	w.Count("digraphs", 1)
	n := d.N
	var X []int
	var R []lalr.Relation
	adj := make([][]bool, n)
	for x := 0; x < n; x++ {
		X = append(X, x)
		adj[x] = make([]bool, n)
		for y := 0; y < n; y++ {
			if d.Bits&(1<<(x*n+y)) != 0 {
				adj[x][y] = true
				R = append(R, lalr.VerifRelation(x, y))
			}
		}
	}
	fp := digraphBase(n, d.Base)
	// keep a pristine copy: Digraph must not corrupt its inputs either
	orig := map[int][]int{}
	for k, v := range fp {
		orig[k] = append([]int(nil), v...)
	}
	F := map[int][]int{}
	for _, x := range X {
		F[x] = []int{}
	}
	lalr.Digraph(X, R, fp, &F)
	// reference: reflexive transitive closure
	reach := make([][]bool, n)
	for x := range reach {
		reach[x] = make([]bool, n)
		reach[x][x] = true
		for y := range adj[x] {
			if adj[x][y] {
				reach[x][y] = true
			}
		}
	}
	for k := 0; k < n; k++ {
		for i := 0; i < n; i++ {
			for j := 0; j < n; j++ {
				if reach[i][k] && reach[k][j] {
					reach[i][j] = true
				}
			}
		}
	}
	if d.Bits != 0 {
		w.Distinct(fmt.Sprintf("dig %d %d %d", n, d.Bits, d.Base))
	}
	c := &GCase{Origin: "digraph", Extra: mustJSON(d)}
	for x := 0; x < n; x++ {
		want := map[int]bool{}
		for y := 0; y < n; y++ {
			if reach[x][y] {
				for _, v := range orig[y] {
					want[v] = true
				}
			}
		}
		got := map[int]bool{}
		for _, v := range F[x] {
			got[v] = true
		}
		if !sameSet(got, want) {
			w.Violate(fmt.Sprintf("C03|digraph|n=%d bits=%d base=%d", n, d.Bits, d.Base),
				fmt.Sprintf("Digraph on %d nodes, relation bits %b, base family %d: F(%d) = %v, transitive closure gives %v", n, d.Bits, d.Base, x, keys(got), keys(want)), c, nil)
			return
		}
		if !sameSlice(fp[x], orig[x]) {
			w.Violate(fmt.Sprintf("C03|digraph-input-corrupted|n=%d bits=%d base=%d", n, d.Bits, d.Base),
				fmt.Sprintf("Digraph on %d nodes, relation bits %b: the base set of node %d was modified from %v to %v", n, d.Bits, x, orig[x], fp[x]), c, nil)
			return
		}
	}
}

func sameSet(a, b map[int]bool) bool {
	if len(a) != len(b) {
		return false
	}
	for k := range a {
		if !b[k] {
			return false
		}
	}
	return true
}

func sameSlice(a, b []int) bool {
	if len(a) != len(b) {
		return false
	}
	for i := range a {
		if a[i] != b[i] {
			return false
		}
	}
	return true
}

func keys(m map[int]bool) []int {
	var k []int
	for x := range m {
		k = append(k, x)
	}
	sort.Ints(k)
	return k
}
