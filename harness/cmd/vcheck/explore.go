package main

import (
	"fmt"
	"strings"

	"verifharness/lrm"
	"verifharness/ref"
	"verifharness/ygo"
)

// lrStep is what the explorer hands to a check for every transition of the
// LR machine: configuration + next token -> outcome.
type lrStep struct {
	Prefix  []int // reference terminal ids consumed so far
	Tok     int   // reference terminal id, g.EOF(), or -1 for a token code unknown to translate()
	Viable  bool  // Earley: Prefix is a prefix of some sentence
	CanNext bool  // Earley: Prefix+Tok is a viable prefix (Tok=EOF: Prefix is a sentence)
	Before  lrm.Config
	After   lrm.Config
	Res     lrm.StepResult
	// HasRef: the grammar's conflicts are all resolved by the rule of C04 and the reference
	// table was run in lockstep; RefOut is what a parser built to the declarations does here
	HasRef bool
	RefOut lrm.Outcome
}

type lrExplorer struct {
	g                   *ref.Grammar
	vw                  *ygo.View
	m                   *lrm.Machine
	e                   *ref.Earley
	depth               int
	bottom              bool // include the unknown token
	terms               []int
	States, Transitions int64
	visit               func(s *lrStep)
	refM                *lrm.Machine // optional: the reference table as a machine (reference symbol ids)
}

func (x *lrExplorer) run() {
	x.terms = x.terms[:0]
	for i, nt := range x.g.IsNT {
		if !nt {
			x.terms = append(x.terms, i)
		}
	}
	x.e = ref.NewEarley(x.g)
	x.dfs(lrm.Initial(), lrm.Config{St: []int{0}, Sym: []int{x.g.EOF()}}, x.refM != nil, x.e.Start(), nil)
}

func (x *lrExplorer) ysym(tok int) int {
	if tok < 0 {
		return 0 // translate() answers 0 for an unknown token code
	}
	return x.vw.RefToSym[tok]
}

func (x *lrExplorer) dfs(c lrm.Config, rc lrm.Config, rsync bool, chart []*ref.ESet, prefix []int) {
	x.States++
	alpha := append([]int(nil), x.terms...)
	alpha = append(alpha, x.g.EOF())
	if x.bottom {
		alpha = append(alpha, -1)
	}
	for _, tok := range alpha {
		next, res := x.m.Step(c, x.ysym(tok), 4000)
		x.Transitions++
		st := &lrStep{Prefix: prefix, Tok: tok, Viable: chart != nil, Before: c, After: next, Res: res}
		var rnext lrm.Config
		if rsync {
			rtok := tok
			if tok < 0 {
				rtok = len(x.g.Names) + 1 // a symbol the reference table has no column for
			}
			var rres lrm.StepResult
			rnext, rres = x.refM.Step(rc, rtok, 4000)
			st.HasRef, st.RefOut = true, rres.Out
		}
		if chart != nil {
			switch {
			case tok == x.g.EOF():
				st.CanNext = x.e.Accepts(chart)
			case tok >= 0:
				st.CanNext = x.e.CanShift(chart, tok)
			}
		}
		x.visit(st)
		if res.Out == lrm.Shifted && len(prefix) < x.depth && tok >= 0 && tok != x.g.EOF() {
			var nchart []*ref.ESet
			if chart != nil {
				if nc, ok := x.e.Step(chart, tok); ok {
					nchart = nc
				}
			}
			x.dfs(next, rnext, rsync && st.RefOut == lrm.Shifted, nchart, append(append([]int(nil), prefix...), tok))
		}
	}
}

// tokString renders a token string the way the generated test lexers read it.
func tokString(g *ref.Grammar, toks []int, last int) string {
	var b strings.Builder
	for _, t := range toks {
		b.WriteString(g.Names[t] + " ")
	}
	switch {
	case last == g.EOF():
		b.WriteString("$end")
	case last < 0:
		b.WriteString("<unknown-token>")
	case last < len(g.Names):
		b.WriteString(g.Names[last])
	}
	return strings.TrimSpace(b.String())
}

// checkDerivation replays the reductions of one step on the symbol stack:
// every reduction's right-hand side (as written in the specification) must be
// literally on top of the stack. It returns "" or a description.
func checkDerivation(g *ref.Grammar, vw *ygo.View, st *lrStep) string {
	sym := append([]int(nil), st.Before.Sym...)
	for _, ev := range st.Res.Events {
		switch ev.Kind {
		case 's':
			sym = append(sym, ev.Sym)
		case 'r':
			r := g.Rules[ev.Rule]
			n := len(r.R)
			if n > len(sym)-1 {
				return fmt.Sprintf("reduction by %s with only %d symbols on the stack", g.RuleString(ev.Rule), len(sym)-1)
			}
			for i, want := range r.R {
				got := sym[len(sym)-n+i]
				if vw.SymToRef[got] != want {
					return fmt.Sprintf("reduction by %s but the stack top is %s", g.RuleString(ev.Rule), stackText(g, vw, sym[len(sym)-n:]))
				}
			}
			sym = append(sym[:len(sym)-n], vw.RefToSym[r.L])
		}
	}
	if st.Res.Out == lrm.Accepted {
		if st.Tok != g.EOF() {
			return "accepted although the lookahead is not the end marker (input not consumed)"
		}
		if len(sym) != 2 || vw.SymToRef[sym[1]] != g.Start {
			return "accepted with stack " + stackText(g, vw, sym[1:]) + " instead of the start symbol alone"
		}
	}
	return ""
}

func stackText(g *ref.Grammar, vw *ygo.View, syms []int) string {
	var p []string
	for _, s := range syms {
		if s == 1 {
			p = append(p, "$end")
		} else {
			p = append(p, g.Names[vw.SymToRef[s]])
		}
	}
	return "[" + strings.Join(p, " ") + "]"
}

// refMachine turns the reference table (every conflict resolved as C04
// prescribes) into a machine for the abstract driver, over reference ids.
func refMachine(g *ref.Grammar, t *ref.Table) *lrm.Machine {
	const errCode, accCode = 1 << 28, 1<<28 + 1
	m := &lrm.Machine{NStates: len(t.A.States), NSyms: len(g.Names) + 1, Err: errCode, Acc: accCode}
	for _, r := range g.Rules {
		m.RuleLHS = append(m.RuleLHS, r.L)
		m.RuleLen = append(m.RuleLen, len(r.R))
	}
	m.Lookup = func(s, a int) (int, bool) {
		if s < 0 || s >= len(t.A.States) {
			return 0, false
		}
		if a < len(g.Names) && g.IsNT[a] {
			if to, ok := t.A.States[s].Trans[a]; ok {
				return to, true
			}
			return errCode, true
		}
		if a > g.EOF() {
			return errCode, true
		}
		act := t.Action(s, a)
		switch act.Kind {
		case ref.Shift:
			return act.Arg, true
		case ref.Reduce:
			return -act.Arg, true
		case ref.Accept:
			return accCode, true
		}
		return errCode, true
	}
	return m
}
