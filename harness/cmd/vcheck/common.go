package main

import (
	"encoding/json"
	"os"

	parser "github.com/acekingke/yaccgo/Parser"

	"verifharness/gram"
	"verifharness/lrm"
	"verifharness/ref"
	"verifharness/ygo"
)

// GCase is a grammar case as stored in progress and replay files.
type GCase struct {
	Origin string          `json:"origin"` // class or family name
	Spec   *gram.Spec      `json:"spec"`
	Extra  json.RawMessage `json:"extra,omitempty"`
}

func quickClasses() []gram.Class {
	return []gram.Class{{N: 2, T: 2, L: 2, R: 3}, {N: 1, T: 2, L: 3, R: 3}, {N: 1, T: 2, L: 4, R: 2}}
}

func thoroughClasses() []gram.Class {
	return []gram.Class{
		{N: 2, T: 2, L: 2, R: 4}, {N: 1, T: 2, L: 3, R: 4}, {N: 2, T: 3, L: 2, R: 3},
		{N: 3, T: 2, L: 2, R: 3}, {N: 1, T: 3, L: 3, R: 3}, {N: 2, T: 2, L: 3, R: 3}, {N: 1, T: 2, L: 4, R: 3},
	}
}

func classesFor(w *Worker) []gram.Class {
	if w.Thorough() {
		return thoroughClasses()
	}
	return quickClasses()
}

// forEachGrammar enumerates the family list followed by every rule set of the
// classes, calling f for the cases of this worker. all=true includes the rule
// sets in which S has no rule (C12). The running index is global over
// families and classes, so shards are disjoint and their union is everything.
func forEachGrammar(w *Worker, classes []gram.Class, all bool, families bool, f func(idx int64, c *GCase)) {
	var idx int64
	if families {
		for _, n := range append(gram.Families(), gram.BigFamilies()...) {
			if w.Mine(idx) {
				c := &GCase{Origin: "family:" + n.Name, Spec: n.Spec}
				w.Begin(idx, c)
				f(idx, c)
			}
			idx++
		}
	}
	if families {
		for _, n := range gram.PermFamilies() {
			if w.Mine(idx) {
				c := &GCase{Origin: "family:" + n.Name, Spec: n.Spec}
				w.Begin(idx, c)
				w.Count("rule_order_permutations", 1)
				f(idx, c)
			}
			idx++
		}
	}
	for _, cl := range classes {
		u := cl.Universe()
		base := idx
		n := cl.Enumerate(all, func(i int64, rules []int) bool {
			g := base + i
			if w.Mine(g) {
				c := &GCase{Origin: cl.String(), Spec: cl.SpecOf(u, rules)}
				w.Begin(g, c)
				f(g, c)
				// the same rules with the groups of each nonterminal split up
				// (S1 A1 S2 A2 ...): yacc allows a nonterminal to be defined in
				// several places
				if sp := splitGroups(c.Spec); sp != nil {
					c2 := &GCase{Origin: cl.String() + "/split-groups", Spec: sp}
					w.Begin(g, c2)
					w.Count("split_group_orderings", 1)
					f(g, c2)
				}
				if g%512 == 0 {
					w.Recycle(g + 1)
				}
			}
			return true
		})
		idx = base + n
		w.Count("grammars_in_"+cl.String(), 0)
		if w.Shard == 0 {
			w.Count("class_size_"+cl.String(), n)
		}
	}
}

// splitGroups orders the rules round-robin over the left-hand sides (first
// rule of every nonterminal, then the second of every nonterminal, ...), so
// that the alternatives of one nonterminal are not adjacent. nil when that is
// the order the rules already have.
func splitGroups(s *gram.Spec) *gram.Spec {
	var order []string
	groups := map[string][]gram.Rule{}
	for _, r := range s.Rules {
		if _, ok := groups[r.L]; !ok {
			order = append(order, r.L)
		}
		groups[r.L] = append(groups[r.L], r)
	}
	var out []gram.Rule
	for k := 0; len(out) < len(s.Rules); k++ {
		for _, l := range order {
			if k < len(groups[l]) {
				out = append(out, groups[l][k])
			}
		}
	}
	same := true
	for i := range out {
		if out[i].L != s.Rules[i].L {
			same = false
		}
	}
	if same {
		return nil
	}
	cp := *s
	cp.Rules = out
	return &cp
}

const buildFuel = 20_000_000

// buildUsable runs the reference classification and, for usable grammars,
// the real yaccgo. It returns nil (after counting why) when the case does
// not reach the comparison stage of the calling check.
func buildUsable(w *Worker, c *GCase) (*ref.Grammar, *ygo.Result, *ygo.View, string) {
	g := ref.FromSpec(c.Spec)
	if !g.Usable() {
		w.Count("skipped_reference_says_unusable", 1)
		return nil, nil, nil, ""
	}
	text := c.Spec.Render()
	res := ygo.Build(text, ygo.Options{Fuel: buildFuel})
	if !res.OK() {
		// judged by C12 / C13, counted here so that it is visible
		w.Count("skipped_yaccgo_refused_usable_grammar", 1)
		return nil, nil, nil, ""
	}
	vw, err := ygo.NewView(res.V, g)
	if err != nil {
		// judged by C10
		w.Count("skipped_front_end_mismatch", 1)
		w.SetAdd("front_end_mismatch", err.Error())
		return nil, nil, nil, ""
	}
	return g, res, vw, text
}

// buildUsableLoose is buildUsable for the checks that can still judge token-level behaviour when the
// rule list yaccgo works on differs from the file (C01, C02, C06): the view is then returned with
// RulesDiffer set and rule numbers must not be interpreted.
func buildUsableLoose(w *Worker, c *GCase) (*ref.Grammar, *ygo.View) {
	g := ref.FromSpec(c.Spec)
	if !g.Usable() {
		w.Count("skipped_reference_says_unusable", 1)
		return nil, nil
	}
	res := ygo.Build(c.Spec.Render(), ygo.Options{Fuel: buildFuel})
	if !res.OK() {
		w.Count("skipped_yaccgo_refused_usable_grammar", 1)
		return nil, nil
	}
	vw, err := ygo.NewView(res.V, g)
	if err != nil {
		if vw != nil && vw.RulesDiffer {
			w.Count("rule_list_differs_judged_at_token_level", 1)
			return g, vw
		}
		w.Count("skipped_front_end_mismatch", 1)
		w.SetAdd("front_end_mismatch", err.Error())
		return nil, nil
	}
	return g, vw
}

func refOf(c *GCase) *ref.Grammar { return ref.FromSpec(c.Spec) }

func readFile(p string) (string, error) {
	b, err := os.ReadFile(p)
	return string(b), err
}

// repoDir is the yaccgo source tree under test: /repo unless VERIF_REPO says
// otherwise (used to run the checks against a scratch worktree that carries a
// seeded change, without touching /repo).
func repoDir() string {
	if r := os.Getenv("VERIF_REPO"); r != "" {
		return r
	}
	return "/repo"
}

// packedIfIntact returns the machine over the packed arrays of a build this process made earlier,
// or nil (callers then use the dense table) when the arrays no longer answer like the table of the
// same build: the model must not be run on arrays that something overwrote after the build. C05
// reports that situation itself (c05Recheck, c05MatrixHistories).
func packedIfIntact(w *Worker, v *parser.RootVistor) *lrm.Machine {
	pm := lrm.Packed(v)
	if pm == nil {
		return nil
	}
	for s, row := range v.GTable {
		for a, want := range row {
			if got, ok := pm.Lookup(s, a); !ok || got != want {
				w.Count("packed_arrays_of_an_earlier_build_no_longer_intact", 1)
				return nil
			}
		}
	}
	return pm
}
