package main

import (
	"encoding/json"
	"fmt"
	"regexp"
	"sort"
	"strconv"
	"strings"

	"verifharness/gen"
	"verifharness/gen/rt"
	"verifharness/gram"
	"verifharness/tsrun"
	"verifharness/ygo"
)

// C11: token codes are unique and the lexer interface is consistent.

func init() {
	register(&CheckDef{
		ID:    "C11",
		Level: "exploration",
		Rule: "every ordered mix of <=3 (quick) / <=4 (thorough) tokens, each slot drawn from: named with automatic number (plain / tagged), named with explicit number from {1,2,3,43,97,257,1000,-5,-1 (an alias of the end marker)} or written with leading zeros (010, 064, -010: still decimal), named declared only by %left, named declared twice (%token <t> X and %token X n, n large or small), named introduced by %left and numbered by a later %token line, character literal from {'+','a','{','é','ü'} declared by %token / only by %left / only used in a rule; explicit numbers pairwise distinct and distinct from the literal codes present; in-process: every terminal's code (literal = character code, explicit kept, all distinct, none -1); generated Go and TypeScript (every mix in-process, a fixed stride of them compiled/loaded): `const NAME = n` lines and translate(c) evaluated for every c in [-9, max+2], and the compiled go, go -o and ts parsers run on the code sequence of the only rule (accepted), its prefixes, transpositions and one undeclared code at each position (all rejected); " +
			"non-trivial = mix with at least two tokens; distinct = distinct mixes",
		Assumptions: []string{
			"the proviso of the statement: the user's explicit numbers are distinct from each other and from the codes of the literals used",
			"translate's answer for 'any other integer' is the column of the internal start symbol (0), whose cells are all error cells (checked by C06 with an unknown token code)",
		},
		Work: func(w *Worker) { c11Work(w) },
		Replay: func(w *Worker, raw json.RawMessage) {
			var c c11Case
			if json.Unmarshal(raw, &c) == nil && len(c.Slots) > 0 {
				c11Eval(w, &c, true)
				return
			}
			var g GCase
			if json.Unmarshal(raw, &g) == nil && g.Origin == "token-with-rules" {
				c11TokensWithRules(w)
			}
		},
	})
}

type tokSlot struct {
	Kind string `json:"kind"` // auto, tagged, num, preconly, twice, lit, litprec, lituse
	Num  int    `json:"num,omitempty"`
	Char rune   `json:"char,omitempty"`
}

type c11Case struct {
	Slots []tokSlot `json:"slots"`
	// OneLine: every token of the mix that is introduced by a precedence
	// line shares ONE %left line (literals and names mixed, in slot order)
	OneLine bool `json:"one_line,omitempty"`
	aliases []string
}

func c11Menu() []tokSlot {
	m := []tokSlot{{Kind: "auto"}, {Kind: "tagged"}, {Kind: "preconly"}, {Kind: "twice", Num: 300}, {Kind: "twice", Num: 4}, {Kind: "precthennum", Num: 5}}
	for _, n := range []int{1, 2, 3, 43, 97, 257, 1000, -1, -5, 4294968296} { // the last one does not fit in 32 bits
		m = append(m, tokSlot{Kind: "num", Num: n})
	}
	for _, n := range []int{10, 64, -10} {
		m = append(m, tokSlot{Kind: "numz", Num: n})
	}
	for _, c := range []rune{'+', 'a', '{', 'é', 'ü'} {
		m = append(m, tokSlot{Kind: "lit", Char: c}, tokSlot{Kind: "litprec", Char: c}, tokSlot{Kind: "lituse", Char: c})
	}
	// literals that are declared but used in no rule
	m = append(m, tokSlot{Kind: "litunused", Char: '!'}, tokSlot{Kind: "litprecunused", Char: '~'})
	// a literal that is a blank
	m = append(m, tokSlot{Kind: "lit", Char: ' '}, tokSlot{Kind: "lituse", Char: ' '})
	// a numbered token that gets its value tag from a %type line
	m = append(m, tokSlot{Kind: "numtyped", Num: 520})
	return m
}

// valid applies the proviso of the statement.
func (c *c11Case) valid() bool {
	nums := map[int]bool{}
	chars := map[rune]bool{}
	for i, s := range c.Slots {
		switch s.Kind {
		case "num", "numz", "twice", "precthennum", "numtyped":
			n := s.Num
			if s.Kind == "twice" && s.Num >= 100 {
				n += i
			}
			if nums[n] {
				return false
			}
			nums[n] = true
		case "lit", "litprec", "lituse", "litunused", "litprecunused":
			if chars[s.Char] {
				return false
			}
			chars[s.Char] = true
		}
	}
	for ch := range chars {
		if nums[int(ch)] {
			return false
		}
	}
	return true
}

// spec builds the grammar text for a mix; want maps terminal name -> expected code (0 = automatic).
func (c *c11Case) spec() (*gram.Spec, map[string]int, []string) {
	s := &gram.Spec{Start: "S", HasUnion: true, Union: " v int "}
	want := map[string]int{}
	var order []string
	var aliases []string
	var later []gram.TokDecl
	rule := gram.Rule{L: "S"}
	for i, sl := range c.Slots {
		name := fmt.Sprintf("T%d", i+1)
		lit := "'" + string(sl.Char) + "'"
		switch sl.Kind {
		case "auto":
			s.Tokens = append(s.Tokens, gram.TokDecl{Name: name})
			want[name] = 0
		case "tagged":
			s.Tokens = append(s.Tokens, gram.TokDecl{Name: name, Tag: "v"})
			want[name] = 0
		case "num", "numz":
			td := gram.TokDecl{Name: name, Num: sl.Num}
			if sl.Kind == "numz" {
				// the same number written with leading zeros (still decimal: yacc has no octal token numbers)
				td.NumText = fmt.Sprintf("%03d", sl.Num)
				if sl.Num < 0 {
					td.NumText = fmt.Sprintf("-%03d", -sl.Num)
				}
			}
			s.Tokens = append(s.Tokens, td)
			want[name] = sl.Num
			if sl.Num == -1 {
				// an alias of the end marker (as `%token EOF -1` in examples/e.y): a constant, not a grammar symbol
				aliases = append(aliases, name)
				continue
			}
		case "numtyped":
			s.Tokens = append(s.Tokens, gram.TokDecl{Name: name, Num: sl.Num})
			s.Types = append(s.Types, gram.TypeDecl{Tag: "v", Names: []string{name}})
			want[name] = sl.Num
		case "twice":
			n := sl.Num
			if n >= 100 {
				n += i
			}
			s.Tokens = append(s.Tokens, gram.TokDecl{Name: name, Tag: "v"}, gram.TokDecl{Name: name, Num: n})
			want[name] = n
		case "precthennum": // introduced by %left, numbered by a later %token line
			s.Prec = append(s.Prec, gram.PrecLevel{Assoc: "left", Toks: []string{name}})
			later = append(later, gram.TokDecl{Name: name, Num: sl.Num})
			want[name] = sl.Num
		case "preconly":
			s.Tokens = append(s.Tokens, gram.TokDecl{Name: name, NoTokenLine: true})
			s.Prec = append(s.Prec, gram.PrecLevel{Assoc: "left", Toks: []string{name}})
			want[name] = 0
		case "lit":
			s.Tokens = append(s.Tokens, gram.TokDecl{Name: lit})
			name = lit
			want[name] = int(sl.Char)
		case "litprec":
			s.Prec = append(s.Prec, gram.PrecLevel{Assoc: "right", Toks: []string{lit}})
			name = lit
			want[name] = int(sl.Char)
		case "lituse":
			name = lit
			want[name] = int(sl.Char)
		case "litunused", "litprecunused":
			// declared (by %token / by a precedence line) but used in no rule: a token all the same
			if sl.Kind == "litunused" {
				s.Tokens = append(s.Tokens, gram.TokDecl{Name: lit})
			} else {
				s.Prec = append(s.Prec, gram.PrecLevel{Assoc: "left", Toks: []string{lit}})
			}
			want[lit] = int(sl.Char)
			continue
		}
		order = append(order, name)
		rule.R = append(rule.R, name)
	}
	if c.OneLine && len(s.Prec) > 1 {
		one := gram.PrecLevel{Assoc: "nonassoc"}
		for _, p := range s.Prec {
			one.Toks = append(one.Toks, p.Toks...)
		}
		s.Prec = []gram.PrecLevel{one}
	}
	s.Rules = []gram.Rule{rule}
	s.LateTokens = later
	if len(rule.R) == 0 {
		s.Rules[0].R = nil
	}
	c.aliases = aliases
	return s, want, order
}

// c11TokensWithRules: a name declared with %token and then given rules. yacc refuses that ("rule given
// for token"); a refusal is fine. If yaccgo generates, the declared token must still be a terminal with
// its constant and its translate case like every other named token.
func c11TokensWithRules(w *Worker) {
	if w.Shard != 0 {
		return
	}
	for _, text := range []string{
		"%token TA TB TC\n%start S\n%%\nS : TA TB TC ;\nTB : TA ;\n",
		"%token TA TB\n%left TC\n%start S\n%%\nS : TA TC TB ;\nTC : TA | TC TA ;\n",
		"%token TA 300 TB 301\n%start S\n%%\nS : TB TA ;\nTA : TB TB ;\n",
	} {
		w.Count("evaluations", 1)
		w.Count("tokens_with_rules", 1)
		res := ygo.Build(text, ygo.Options{Fuel: buildFuel})
		if !res.OK() {
			w.Count("tokens_with_rules_refused", 1)
			continue
		}
		terminal := map[string]bool{}
		for _, sy := range res.V.G.Symbols {
			if !sy.IsNonTerminator {
				terminal[sy.Name] = true
			}
		}
		for _, name := range []string{"TA", "TB", "TC"} {
			if strings.Contains(text, name) && !terminal[name] {
				w.Violate("C11|token-missing|token-with-rules|"+text, fmt.Sprintf("token-missing: %q: the name %s is declared as a token and yaccgo generates without a diagnostic, but %s is not a terminal of the grammar it built: its constant is emitted and the code-to-symbol translation has no case for it", text, name, name),
					&GCase{Origin: "token-with-rules", Extra: mustJSON(text)}, map[string]interface{}{"grammar_text": text})
				break
			}
		}
	}
}

func c11Work(w *Worker) {
	c11TokensWithRules(w)
	menu := c11Menu()
	maxK := 3
	if w.Thorough() {
		maxK = 4
	}
	var idx int64
	var compile []*c11Case
	cur := []tokSlot{}
	var rec func()
	rec = func() {
		if len(cur) > 0 {
			nprec := 0
			for _, sl := range cur {
				if sl.Kind == "preconly" || sl.Kind == "litprec" || sl.Kind == "precthennum" {
					nprec++
				}
			}
			for _, one := range []bool{false, true} {
				if one && nprec < 2 {
					continue
				}
				c := &c11Case{Slots: append([]tokSlot(nil), cur...), OneLine: one}
				if c.valid() {
					if w.Mine(idx) {
						w.Begin(idx, c)
						if c11Eval(w, c, false) {
							stride := int64(19)
							if w.Thorough() {
								stride = 23
							}
							if (idx/int64(w.N))%stride == 0 {
								compile = append(compile, c)
							}
						}
					}
					idx++
				}
			}
		}
		if len(cur) == maxK {
			return
		}
		for _, m := range menu {
			cur = append(cur, m)
			rec()
			cur = cur[:len(cur)-1]
		}
	}
	rec()
	// many automatically numbered tokens next to a literal that is only used in a rule (and one that is
	// declared): the automatic codes must flow around the character codes, however many there are
	base := int64(1) << 43
	for _, n := range []int{40, 60, 96, 130} {
		for _, kind := range []string{"lituse", "lit", "litprec"} {
			for _, ch := range []rune{'+', 'a', '{'} {
				if w.Mine(base) {
					var slots []tokSlot
					for i := 0; i < n; i++ {
						slots = append(slots, tokSlot{Kind: "auto"})
					}
					slots = append(slots, tokSlot{Kind: kind, Char: ch})
					c := &c11Case{Slots: slots}
					w.Begin(base, map[string]interface{}{"origin": "c11-many-autos", "n": n, "kind": kind, "char": string(ch)})
					w.Count("many_auto_mixes", 1)
					if c11Eval(w, c, false) && n == 96 {
						compile = append(compile, c)
					}
				}
				base++
			}
		}
	}
	// the compiled runs ask translate() for every integer from -9 to the largest code + 2: mixes with the
	// token number beyond 32 bits are judged in-process only
	{
		var small []*c11Case
		for _, c := range compile {
			big := false
			for _, sl := range c.Slots {
				if sl.Num > 1<<31 {
					big = true
				}
			}
			if !big {
				small = append(small, c)
			}
		}
		compile = small
	}
	for lo := 0; lo < len(compile); lo += 100 {
		hi := lo + 100
		if hi > len(compile) {
			hi = len(compile)
		}
		w.Begin(int64(1)<<44+int64(lo), map[string]string{"origin": "c11-compile-batch"})
		c11Compile(w, compile[lo:hi], fmt.Sprintf("C11-%d-%d", w.Shard, lo))
	}
}

var constRe = regexp.MustCompile(`(?m)^const (\w+) = (-?\d+)\s*$`)

type c11Built struct {
	codes map[string]int // terminal spec name -> code
	symID map[int]int    // code -> symbol id
	max   int
}

// c11Eval checks the in-process half; it returns whether the mix is usable
// for the compiled half.
func c11Eval(w *Worker, c *c11Case, withCompile bool) bool {
	w.Count("evaluations", 1)
	spec, want, order := c.spec()
	key := string(mustJSON(c))
	text := spec.Render()
	bad := func(kind, msg string) {
		w.Violate("C11|"+kind+"|"+key, fmt.Sprintf("%s: token mix %s: %s", kind, key, msg), c, map[string]interface{}{"grammar_text": text})
	}
	if len(c.Slots) >= 2 {
		w.Distinct(key)
	}
	for _, ord := range []int{0, 1} {
		o := ygo.Options{Fuel: buildFuel}
		if ord == 1 {
			o.Order.Kind = 2 // verifsched.Reverse
		}
		res := ygo.Build(text, o)
		if !res.OK() {
			bad("refused", "yaccgo refuses a grammar whose token declarations are legal: "+res.Diag())
			return false
		}
		codes := map[string]int{}
		seen := map[int]string{}
		for _, sy := range res.V.G.Symbols {
			if sy.IsNonTerminator || sy.Name == "$" {
				continue
			}
			name := sy.Name
			if strings.HasPrefix(name, "$operator") {
				name = "'" + name[len("$operator"):] + "'"
			}
			codes[name] = int(sy.Value)
			if other, dup := seen[int(sy.Value)]; dup {
				bad("duplicate-code", fmt.Sprintf("tokens %s and %s both have code %d", other, name, int(sy.Value)))
				return false
			}
			seen[int(sy.Value)] = name
			if int(sy.Value) == -1 || int(sy.Value) == 0 {
				bad("reserved-code", fmt.Sprintf("token %s has code %d", name, int(sy.Value)))
				return false
			}
		}
		// every token of the mix: the ones in the rule, then the declared-but-unused ones
		all := append([]string(nil), order...)
		for _, sl := range c.Slots {
			if sl.Kind == "litunused" || sl.Kind == "litprecunused" {
				all = append(all, "'"+string(sl.Char)+"'")
			}
		}
		for _, name := range all {
			got, ok := codes[name]
			if !ok {
				bad("token-missing", "token "+name+" is not a terminal of the grammar yaccgo built")
				return false
			}
			if want[name] != 0 && got != want[name] {
				bad("wrong-code", fmt.Sprintf("token %s must have code %d, it has %d", name, want[name], got))
				return false
			}
		}
		if len(codes) != len(all) {
			bad("extra-token", fmt.Sprintf("yaccgo has %d terminals, the specification %d", len(codes), len(all)))
			return false
		}
	}
	w.SampleEvery(w.Out.Counters["evaluations"], 1009, func() interface{} { return map[string]interface{}{"mix": c.Slots, "grammar_text": text} })
	if withCompile {
		c11Compile(w, []*c11Case{c}, "replay")
	}
	return true
}

// c11Compile checks constants and translate() of generated programs.
func c11Compile(w *Worker, cases []*c11Case, name string) {
	b, err := gen.NewBatch(w.Scratch, name)
	if err != nil {
		w.Note("INTERNAL: " + err.Error())
		return
	}
	defer b.Remove()
	type ent struct {
		c      *c11Case
		codes  map[string]int
		symID  map[int]int
		max    int
		goIt   *gen.Item
		goOIt  *gen.Item
		tsIt   *gen.Item
		failed bool
		// sentence: the input on which the lexer answers the codes of the mix in rule order;
		// expect: input -> must be accepted?
		expect map[string]bool
	}
	var ents []*ent
	byPkg := map[string]*ent{}
	for i, c := range cases {
		spec, _, order := c.spec()
		d := gen.Decorate(spec, gen.Tags{}, gen.NoAction)
		// keep the declarations of the mix exactly: Decorate adds %token lines for undeclared terminals, so render by hand
		e := &ent{c: c, codes: map[string]int{}, symID: map[int]int{}}
		mk := func(variant, pkg string) string {
			s := *spec
			dd := *d
			dd.Spec = &s
			for ri := range s.Rules {
				s.Rules = append([]gram.Rule(nil), s.Rules...)
				s.Rules[ri].Action = fmt.Sprintf(" rec(%d) ", ri+1)
			}
			// the user's own code has constants whose names BEGIN like token names, and mentions a token
			// constant in a comment: the token constants must be emitted all the same
			own := "\nconst T1_WIDTH = 4 // const T2 is declared by the generator, not here\n"
			if variant == gen.TS {
				own = "\nconst T1_WIDTH = 4; // const T2 is declared by the generator, not here\n"
			}
			return dd.Source(variant, pkg) + own
		}
		res := ygo.Build(mk(gen.Go, "m"), ygo.Options{Fuel: buildFuel})
		if !res.OK() {
			continue
		}
		for _, sy := range res.V.G.Symbols {
			if !sy.IsNonTerminator {
				e.symID[int(sy.Value)] = int(sy.ID)
				if int(sy.Value) > e.max {
					e.max = int(sy.Value)
				}
				if sy.Name != "$" && !strings.HasPrefix(sy.Name, "$operator") {
					e.codes[sy.Name] = int(sy.Value)
				}
			}
		}
		gp, tp, op := fmt.Sprintf("t%d_go", i), fmt.Sprintf("t%d_ts", i), fmt.Sprintf("t%d_goo", i)
		e.goIt = b.AddText(gp, gen.Go, mk(gen.Go, gp))
		e.goOIt = b.AddText(op, gen.GoO, mk(gen.GoO, op))
		e.tsIt = b.AddText(tp, gen.TS, mk(gen.TS, tp))
		byPkg[gp], byPkg[tp], byPkg[op] = e, e, e
		// end to end: the lexer answers the codes, the parser must take each for its own symbol
		// (the only sentence is the tokens in rule order) and everything else for an error
		var sent []byte
		for _, name := range order {
			sent = append(sent, d.Chars[name])
		}
		e.expect = map[string]bool{}
		if len(sent) > 0 {
			for k := 0; k <= len(sent); k++ {
				e.expect[string(sent[:k])] = false // proper prefixes (overwritten below for the sentence)
				if k < len(sent) {
					e.expect[string(sent[:k])+"?"+string(sent[k+1:])] = false // an undeclared code at position k
					if k+1 < len(sent) && sent[k] != sent[k+1] {
						sw := append([]byte(nil), sent...)
						sw[k], sw[k+1] = sw[k+1], sw[k]
						e.expect[string(sw)] = false
					}
				}
			}
			e.expect[string(sent)+"?"] = false
			e.expect[string(sent)] = true
		}
		ents = append(ents, e)
	}
	if err := b.BuildGo(); err != nil {
		w.Note("INTERNAL: " + err.Error())
		return
	}
	fail := func(e *ent, kind, variant, msg string) {
		if e.failed {
			return
		}
		e.failed = true
		key := string(mustJSON(e.c.Slots))
		w.Violate("C11|"+kind+"|"+variant+"|"+key, fmt.Sprintf("%s (%s): token mix %s: %s", kind, variant, key, msg), e.c, nil)
	}
	checkTrans := func(e *ent, variant string, lo int, got []int) {
		w.Count("translate_tables_checked", 1)
		for i, g := range got {
			c := lo + i
			want := 0
			if id, ok := e.symID[c]; ok {
				want = id
			}
			w.Count("translate_codes_checked", 1)
			if g != want {
				fail(e, "translate", variant, fmt.Sprintf("translate(%d) = %d, expected %d (symbol ids by code: %v)", c, g, want, e.symID))
				return
			}
		}
	}
	checkConsts := func(e *ent, it *gen.Item, variant string) {
		src, err := readFile(it.File)
		if err != nil {
			return
		}
		got := map[string]int{}
		for _, m := range constRe.FindAllStringSubmatch(src, -1) {
			n, _ := strconv.Atoi(m[2])
			if _, dup := got[m[1]]; dup {
				fail(e, "constant-twice", variant, "constant "+m[1]+" is defined twice")
				return
			}
			got[m[1]] = n
		}
		for _, name := range e.c.aliases {
			if g, ok := got[name]; !ok || g != -1 {
				fail(e, "constant", variant, fmt.Sprintf("token %s is declared with number -1 but the file defines %v (present=%v)", name, g, ok))
				return
			}
			delete(got, name)
		}
		for name, code := range e.codes {
			if g, ok := got[name]; !ok || g != code {
				fail(e, "constant", variant, fmt.Sprintf("token %s has code %d but the file defines %v (present=%v)", name, code, g, ok))
				return
			}
		}
		for name := range got {
			if _, ok := e.codes[name]; !ok && name != "ERROR_ACTION" && name != "ACCEPT_ACTION" && name != "NTERMINALS" {
				fail(e, "constant-extra", variant, "the file defines a constant "+name+" that is not a named token")
				return
			}
		}
	}
	checkRun := func(e *ent, variant, input string, res *rt.Result) {
		want, ok := e.expect[input]
		if !ok || res == nil {
			return
		}
		w.Count("end_to_end_parses", 1)
		switch {
		case want && res.Class != "accept":
			fail(e, "token-does-not-reach-its-symbol", variant, fmt.Sprintf("the lexer answers the codes of the declared tokens in rule order (input %q) but the parser answers %s %s", input, res.Class, res.Panic))
		case !want && res.Class == "accept":
			fail(e, "undeclared-code-taken-for-a-token", variant, fmt.Sprintf("input %q is not the token sequence of the only rule ('?' = a code that is no token), but the parser accepts it", input))
		case !want && res.Class != "syntax-error":
			fail(e, "undeclared-code-not-an-error", variant, fmt.Sprintf("input %q: expected the documented syntax error, the parser answers %s %s", input, res.Class, res.Panic))
		}
	}
	inputsOf := func(e *ent) []string {
		var in []string
		for k := range e.expect {
			in = append(in, k)
		}
		sort.Strings(in)
		return in
	}
	var jobs []gen.Job
	var tsJobs []tsrun.Job
	for _, e := range ents {
		if e.goIt.GenDiag != "" || e.goIt.BuildErr != "" {
			w.Count("compile_skipped", 1)
			w.SetAdd("compile_problems", e.goIt.GenDiag+e.goIt.BuildErr)
		} else {
			checkConsts(e, e.goIt, "go")
			jobs = append(jobs, gen.Job{Pkg: e.goIt.Pkg, TransLo: -9, TransHi: e.max + 2, Inputs: inputsOf(e), Fuel: 10000})
		}
		if e.goOIt.GenDiag == "" && e.goOIt.BuildErr == "" {
			jobs = append(jobs, gen.Job{Pkg: e.goOIt.Pkg, TransLo: -9, TransHi: e.max + 2, Inputs: inputsOf(e), Fuel: 10000})
		}
		if e.tsIt.GenDiag == "" {
			checkConsts(e, e.tsIt, "ts")
			js, _, err := tsrun.EraseFile(e.tsIt.File)
			if err == nil {
				tsJobs = append(tsJobs, tsrun.Job{Pkg: e.tsIt.Pkg, File: js, TransLo: -9, TransHi: e.max + 2, Inputs: inputsOf(e), Fuel: 10000})
			}
		}
	}
	if err := b.RunGo(jobs, func(o *gen.Out) {
		variant := "go"
		if strings.HasSuffix(o.Pkg, "_goo") {
			variant = "go-o"
		}
		switch o.Kind {
		case "trans":
			checkTrans(byPkg[o.Pkg], variant, -9, o.Trans)
		case "run":
			checkRun(byPkg[o.Pkg], variant, o.Input, o.Res)
		}
	}); err != nil {
		w.Note("INTERNAL: " + err.Error())
	}
	if len(tsJobs) > 0 {
		if err := tsrun.Run(b.Dir, tsJobs, func(o *tsrun.Out) {
			switch {
			case o.Kind == "trans":
				checkTrans(byPkg[o.Pkg], "ts", -9, o.Trans)
			case o.Kind == "run":
				checkRun(byPkg[o.Pkg], "ts", o.Input, o.Res)
			case o.Kind == "load" && o.Err != "":
				w.SetAdd("compile_problems", "ts: "+o.Err)
			}
		}); err != nil {
			w.Note("INTERNAL: " + err.Error())
		}
	}
	w.Count("mixes_compiled", int64(len(ents)))
}
