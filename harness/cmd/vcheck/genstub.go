package main

import "verifharness/evid"

type evidWorkerOut = evid.WorkerOut

// placeholders until the generated-parser conformance engine exists
func genPhase(w *Worker, id string)            {}
func genReplay(w *Worker, id string, c *GCase) {}
