package main

import (
	"verifharness/evid"
	"verifharness/gen"
	"verifharness/gen/rt"
	"verifharness/tsrun"
)

type evidWorkerOut = evid.WorkerOut

// tsRunBatch erases the types of every generated TypeScript parser of the
// batch and runs all inputs in one Node process.
func tsRunBatch(w *Worker, b *gen.Batch, all []*obs) {
	var jobs []tsrun.Job
	idx := map[string]*obs{}
	for _, o := range all {
		it := o.items[gen.TS]
		if it == nil || it.GenDiag != "" {
			continue
		}
		js, deleted, err := tsrun.EraseFile(it.File)
		if err != nil {
			w.Note("INTERNAL: " + err.Error())
			continue
		}
		w.Count("ts_type_spans_erased", int64(len(deleted)))
		idx[it.Pkg] = o
		jobs = append(jobs, tsrun.Job{Pkg: it.Pkg, File: js, Inputs: o.inputs, NStates: o.vw.NStates, NSyms: len(o.vw.V.G.Symbols), Fuel: o.fuel()})
	}
	if len(jobs) == 0 {
		return
	}
	err := tsrun.Run(b.Dir, jobs, func(out *tsrun.Out) {
		o := idx[out.Pkg]
		switch out.Kind {
		case "load":
			if out.Err != "" {
				o.items[gen.TS].BuildErr = out.Err
			}
		case "run":
			o.runs[gen.TS] = append(o.runs[gen.TS], out.Res)
		case "dump":
			o.dumps[gen.TS] = out.Dump
		}
	})
	if err != nil {
		w.Note("INTERNAL: " + err.Error())
	}
}

// tsExpect adapts the model prediction to the TypeScript driver: it has no
// trace and reports errors by logging and returning null (same class).
func tsExpect(p rt.Result) rt.Result { return p }
