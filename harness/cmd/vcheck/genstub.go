package main

import (
	"verifharness/evid"
	"verifharness/gen"
	"verifharness/gen/rt"
)

type evidWorkerOut = evid.WorkerOut

func tsRunBatch(w *Worker, b *gen.Batch, all []*obs) {}
func tsExpect(p rt.Result) rt.Result               { return p }
func c07Corpus(w *Worker, base []*genCase) []*genCase { return base }
func c17GenJudge(w *Worker, o *obs, variants []string, bad func(kind, variant, in, msg string, detail map[string]interface{})) {
}
