package main

import (
	"encoding/json"
	"fmt"

	"verifharness/ref"
)

// C09: parser states are exactly the canonical LR(0) collection.

func init() {
	register(&CheckDef{
		ID:    "C09",
		Level: "exploration",
		Rule: "every rule set of the bounded grammar classes (see counters class_size_*) plus the family list is rendered to .y text and pushed through the real front end and LR(0) construction; " +
			"a case is non-trivial when the reference classifies the grammar as usable and yaccgo's automaton was compared state by state; cases are distinct rule sets",
		Assumptions: []string{
			"reference LR(0) construction (ref/grammar.go) is the textbook closure/goto, states identified by item set",
			"yaccgo runs in-process on the overlay build with map ranges in canonical sorted order (an order Go allows)",
		},
		Work: func(w *Worker) {
			forEachGrammar(w, classesFor(w), false, true, func(idx int64, c *GCase) { c09Eval(w, c) })
		},
		Replay: func(w *Worker, raw json.RawMessage) {
			var c GCase
			if json.Unmarshal(raw, &c) == nil && c.Spec != nil {
				c09Eval(w, &c)
			}
		},
	})
}

func c09Eval(w *Worker, c *GCase) {
	w.Count("evaluations", 1)
	g, _, vw, _ := buildUsable(w, c)
	if g == nil {
		return
	}
	a := g.LR0()
	key := c.Spec.Key()
	w.Distinct(key)
	w.Count("states_compared", int64(len(a.States)))
	w.SampleEvery(w.Out.Counters["evaluations"], 9973, func() interface{} {
		return map[string]interface{}{"grammar": key, "lr0_states": len(a.States)}
	})
	bad := func(kind, msg string) {
		w.Violate("C09|"+kind+"|"+key, fmt.Sprintf("%s: grammar [%s]: %s", kind, key, msg), c, map[string]interface{}{
			"grammar_text": c.Spec.Render(), "what": msg, "reference_states": len(a.States), "yaccgo_states": vw.NStates})
	}
	lr0 := vw.V.G.LR0.LR0Closure
	seen := map[string]int{}
	y2r := make([]int, len(lr0))
	for i, ic := range lr0 {
		items := vw.StateItems(i)
		dup := map[ref.Item]bool{}
		for _, it := range items {
			if dup[it] {
				bad("duplicate-item", fmt.Sprintf("state %d lists item %v twice", i, it))
				return
			}
			dup[it] = true
		}
		k := ref.ItemsKey(items)
		if j, ok := seen[k]; ok {
			bad("duplicate-state", fmt.Sprintf("states %d and %d have the same item set", j, i))
			return
		}
		seen[k] = i
		ri, ok := a.Index[k]
		if !ok {
			bad("extra-state", fmt.Sprintf("state %d has an item set that is not in the canonical collection: %v", i, items))
			return
		}
		y2r[i] = ri
		if ic.Index != i {
			bad("index-field", fmt.Sprintf("state at position %d carries Index %d", i, ic.Index))
			return
		}
	}
	if len(lr0) != len(a.States) {
		bad("missing-state", fmt.Sprintf("yaccgo has %d states, the canonical collection %d", len(lr0), len(a.States)))
		return
	}
	if y2r[0] != 0 {
		bad("start-state", "state 0 is not the closure of the augmented start item")
		return
	}
	for i, ic := range lr0 {
		rs := a.States[y2r[i]]
		got := map[int]int{}
		for _, gt := range ic.GoTo {
			sym := vw.SymToRef[gt.Sym.ID]
			if _, dup := got[sym]; dup {
				bad("duplicate-transition", fmt.Sprintf("state %d has two transitions on %s", i, gt.Sym.Name))
				return
			}
			if gt.ItemCl < 0 || gt.ItemCl >= len(lr0) {
				bad("dangling-transition", fmt.Sprintf("state %d on %s goes to %d", i, gt.Sym.Name, gt.ItemCl))
				return
			}
			got[sym] = y2r[gt.ItemCl]
		}
		for sym, to := range rs.Trans {
			g2, ok := got[sym]
			if !ok {
				bad("missing-transition", fmt.Sprintf("state %d has no transition on %s", i, g.Names[sym]))
				return
			}
			if g2 != to {
				bad("wrong-target", fmt.Sprintf("state %d on %s leads to the wrong item set", i, g.Names[sym]))
				return
			}
		}
		if len(got) != len(rs.Trans) {
			bad("extra-transition", fmt.Sprintf("state %d has %d transitions, expected %d", i, len(got), len(rs.Trans)))
			return
		}
		w.Count("transitions_compared", int64(len(got)))
	}
}
