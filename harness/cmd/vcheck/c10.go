package main

import (
	"encoding/json"
	"fmt"
	"os"
	"path/filepath"
	"strings"

	symbol "github.com/acekingke/yaccgo/Symbol"

	"verifharness/gram"
	"verifharness/ygo"
)

// C10: the grammar file is read faithfully, whatever its layout.

func init() {
	register(&CheckDef{
		ID:    "C10",
		Level: "exploration",
		Rule: "abstract specifications (all declaration kinds, numbered/literal/tagged tokens, %prec, empty alternatives, actions with nested braces and with braces inside strings, runes and comments, value tags on precedence lines, program text on the line of the second %%, mid-rule actions, with and without epilogue; plus every rule set of G(2,2,2,<=2)) x {';' present/absent} x {alternatives joined by '|' / repeated left side} x {one %token line per token / tokens of one tag grouped on a line, with numbers and string aliases} x renderings: every gap between two atoms takes each separator of {blank, newline, CR LF, tab, /* c */, /** c **/, /*/ c */, /* a * b / c */, // c<newline>, mixed whitespace, and empty where yacc syntax allows it}, deviation-bounded: canonical layout, every single-gap deviation, every uniform policy, and (thorough) every pair of gaps on the small specifications; " +
			"what yaccgo works on (rules in order with %prec, action bodies, start symbol, token numbers, tags, precedence levels and associativity, prologue, %union body, epilogue) must equal the abstract specification for every rendering, and the generated Go/TypeScript file must carry prologue, union, actions and epilogue; non-trivial = rendering that differs from the canonical one; distinct = distinct texts",
		Assumptions: []string{
			"domain: separators from gram.Separators (blank, tab, LF, CR LF, the three comment forms incl. `/** c **/` and `/*/ c */`, nothing where the syntax allows it); braces in actions balanced outside strings, runes and comments; a specification with mid-rule actions may be refused with a diagnostic, but no action body may be dropped silently; prologue and %union body are compared modulo surrounding whitespace, the epilogue byte for byte",
		},
		Work: func(w *Worker) { c10Work(w) },
		Replay: func(w *Worker, raw json.RawMessage) {
			var c c10Case
			if json.Unmarshal(raw, &c) == nil && c.Spec != nil {
				c10Eval(w, &c)
			}
		},
	})
}

type c10Case struct {
	Origin string          `json:"origin"`
	Spec   *gram.Spec      `json:"spec"`
	Opts   gram.LayoutOpts `json:"opts"`
	// Seps: gap index -> separator; Uniform: separator for all other gaps ("" = canonical newline)
	Seps    map[int]string `json:"seps,omitempty"`
	Uniform string         `json:"uniform,omitempty"`
	HasUni  bool           `json:"has_uniform,omitempty"`
}

func c10Specs() []gram.Named {
	var out []gram.Named
	full := gram.Parse("E", nil, "E: E '+' T | T ; T: T TMUL F %prec TU | F | ; F: TNUM | '(' E ')' | '-' F %prec TU")
	full.Prologue = "package main\n\nimport \"fmt\"\n// a comment { with a brace\nvar x = map[string]int{\"a\": 1}"
	full.Union = "\n\tval int\n\tstr string // cmt\n"
	full.HasUnion = true
	full.Tokens = []gram.TokDecl{{Name: "TNUM", Tag: "val"}, {Name: "TNUM", Num: 100}, {Name: "TMUL", Num: 300}, {Name: "'+'"}, {Name: "'('"}, {Name: "')'"}, {Name: "'-'"}, {Name: "TU"}}
	full.Prec = []gram.PrecLevel{{Assoc: "left", Toks: []string{"'+'", "'-'"}}, {Assoc: "right", Toks: []string{"TMUL"}}, {Assoc: "nonassoc", Toks: []string{"TU"}}}
	full.Types = []gram.TypeDecl{{Tag: "val", Names: []string{"E", "T"}}, {Tag: "str", Names: []string{"F"}}}
	full.Rules[0].Action = " $$ = $1 + $3 "
	full.Rules[1].Action = " if true { $$ = $1 } else { $$ = 0 } "
	full.Rules[2].Action = "\n\t$$ = $1 * 2 // { unbalanced in a comment is not used\n"
	full.Rules[2].Action = "\n\t$$ = $1 * 2\n"
	full.Rules[4].HasAct = true
	full.Rules[5].Action = " $$ = fmt.Sprint($1) "
	full.Epilogue = "\nfunc GetToken(input string, valTy *ValType, pos *int) int {\n\treturn -1 // %% not a section\n}\n"
	full.HasEpilogue = true
	out = append(out, gram.Named{Name: "full", Spec: full})

	noEpi := gram.Parse("S", []string{"TA", "TB"}, "S: TA S TB | ")
	noEpi.Prologue = "package p"
	out = append(out, gram.Named{Name: "no-epilogue", Spec: noEpi})

	emptyEpi := gram.Parse("S", []string{"TA", "TB"}, "S: TA S TB | TB")
	emptyEpi.HasEpilogue = true
	emptyEpi.Epilogue = ""
	out = append(out, gram.Named{Name: "empty-epilogue", Spec: emptyEpi})

	sameLine := gram.Parse("S", []string{"TA", "TB"}, "S: TA S TB | TB")
	sameLine.HasEpilogue = true
	sameLine.Epilogue = " /* program text on the line of the section mark */ var tail = 1\n// more\n"
	out = append(out, gram.Named{Name: "epilogue-on-section-line", Spec: sameLine})

	// braces inside the strings, runes and comments of an action or of the %union body are text, not structure
	quoted := gram.Parse("S", []string{"TA", "TB"}, "S: A TB | S TB A | TB TB ; A: TA | TA TA | ")
	quoted.Union = " n int // a brace } in a comment\n s string /* and { another */ "
	quoted.HasUnion = true
	quoted.Types = []gram.TypeDecl{{Tag: "n", Names: []string{"S", "A"}}}
	quoted.Tokens = []gram.TokDecl{{Name: "TA", Tag: "n"}, {Name: "TB"}}
	quoted.Rules[0].Action = " s := \"}\"; _ = s; $$ = $1 "
	quoted.Rules[1].Action = " if '{' == 123 { $$ = $1 } "
	quoted.Rules[2].Action = " $$ = 0 /* } */ "
	quoted.Rules[3].Action = "\n\t$$ = $1 // }\n"
	quoted.Rules[4].Action = " s := \"\\\"}{\"; _ = s; $$ = $1 "
	quoted.Rules[5].Action = " s := `}`; _ = s; r := '\\''; _ = r; $$ = 0 "
	quoted.Rules[2].Action = " s := strings.TrimSuffix(\"a\\\\\", \"\\\\\") + \"{\"; _ = s; $$ = 0 /* } */ "
	quoted.Epilogue = "\n// tail\n"
	quoted.HasEpilogue = true
	out = append(out, gram.Named{Name: "braces-in-quoted-text", Spec: quoted})

	acts := gram.Parse("S", []string{"TA", "TB"}, "S: A TB | S TB A ; A: TA | ")
	acts.Union = " n int "
	acts.HasUnion = true
	acts.Types = []gram.TypeDecl{{Tag: "n", Names: []string{"S", "A"}}}
	acts.Tokens = []gram.TokDecl{{Name: "TA", Tag: "n"}, {Name: "TB"}}
	acts.Rules[0].Action = "$$=$1"
	acts.Rules[1].Action = " $$ = $1 + $3 /* c */ "
	acts.Rules[2].Action = " $$ = $1; { x := 1; _ = x } "
	acts.Rules[3].Action = " $$ = 0 "
	acts.Epilogue = "\n// tail\n"
	acts.HasEpilogue = true
	out = append(out, gram.Named{Name: "actions", Spec: acts})

	precOnly := gram.Parse("S", nil, "S: S TP S | S TQ S | TR S %prec TQ | 'x'").WithPrec("left TP", "right TQ TR")
	precOnly.Tokens = []gram.TokDecl{{Name: "TP", NoTokenLine: true}, {Name: "TQ", NoTokenLine: true}, {Name: "TR", NoTokenLine: true}}
	out = append(out, gram.Named{Name: "prec-only-tokens", Spec: precOnly})

	nums := gram.Parse("Z", nil, "Z: TA TB TC Y ; Y: TD | Y TD")
	nums.Tokens = []gram.TokDecl{{Name: "TA", Num: 7}, {Name: "TB"}, {Name: "TC", Num: 1000, Tag: "t"}, {Name: "TD", Tag: "t"}}
	nums.Union = "t string"
	nums.HasUnion = true
	out = append(out, gram.Named{Name: "numbers-tags", Spec: nums})

	// actions between the symbols of a right-hand side (mid-rule actions): no body may get lost
	mid := gram.Parse("S", []string{"TA", "TB"}, "S: TA TB | TB TA")
	mid.Union = " n int "
	mid.HasUnion = true
	mid.Types = []gram.TypeDecl{{Tag: "n", Names: []string{"S"}}}
	mid.Rules[0].Mid = []gram.MidAct{{After: 1, Text: " midRuleBody(1) "}}
	mid.Rules[0].Action = " $$ = finalBody(1) "
	mid.Rules[1].Mid = []gram.MidAct{{After: 1, Text: " onlyBody(2) "}}
	out = append(out, gram.Named{Name: "mid-rule-actions", Spec: mid})

	// token numbers given on precedence lines (POSIX: %left name [number] ...)
	pnum := gram.Parse("E", nil, "E: E TM E | E TP E | E TQ E | TN")
	pnum.Tokens = []gram.TokDecl{{Name: "TN"}, {Name: "TM", NoTokenLine: true}, {Name: "TP", NoTokenLine: true}, {Name: "TQ", NoTokenLine: true}}
	pnum.Prec = []gram.PrecLevel{{Assoc: "left", Toks: []string{"TM", "TP"}, Nums: []int{301, 0}}, {Assoc: "right", Toks: []string{"TQ"}, Nums: []int{400}}}
	out = append(out, gram.Named{Name: "numbers-on-precedence-lines", Spec: pnum})

	// numbers written with leading zeros are decimal all the same (a padded column of numbers)
	pad := gram.Parse("E", nil, "E: E TM E | E TP E | TN TH")
	pad.Tokens = []gram.TokDecl{{Name: "TN", Num: 300, NumText: "0300"}, {Name: "TH", Num: 99, NumText: "0099"}, {Name: "TM", NoTokenLine: true}, {Name: "TP", NoTokenLine: true}}
	pad.Prec = []gram.PrecLevel{{Assoc: "left", Toks: []string{"TM", "TP"}, Nums: []int{301, 308}, NumTexts: []string{"0301", "0308"}}}
	out = append(out, gram.Named{Name: "numbers-with-leading-zeros", Spec: pad})

	// aliases written on precedence lines, with and without a number before them: the rest of the line counts
	pal := gram.Parse("E", nil, "E: E TM E | E TP E | E TQ E | E TR E | TN")
	pal.Tokens = []gram.TokDecl{{Name: "TN"}, {Name: "TM"}, {Name: "TP", NoTokenLine: true}, {Name: "TQ", NoTokenLine: true}, {Name: "TR"}}
	pal.Prec = []gram.PrecLevel{{Assoc: "left", Toks: []string{"TM", "TP"}, Nums: []int{0, 301}, Aliases: []string{"-", "+"}}, {Assoc: "right", Toks: []string{"TQ", "TR"}, Aliases: []string{"?", ""}}}
	out = append(out, gram.Named{Name: "aliases-on-precedence-lines", Spec: pal})

	// value tags given on precedence lines: to a token declared before (untagged), to a new name, to a literal
	ptag := gram.Parse("E", nil, "E: E TP E | E TQ E | E '-' E | TN")
	ptag.Union = " v int \n w string "
	ptag.HasUnion = true
	ptag.Tokens = []gram.TokDecl{{Name: "TN", Tag: "v"}, {Name: "TP"}, {Name: "TQ", NoTokenLine: true}, {Name: "'-'", NoTokenLine: true}}
	ptag.Prec = []gram.PrecLevel{{Assoc: "left", Toks: []string{"TP"}, Tag: "w"}, {Assoc: "right", Toks: []string{"TQ", "'-'"}, Tag: "v"}}
	out = append(out, gram.Named{Name: "tags-on-precedence-lines", Spec: ptag})

	// several tokens per %token line, numbered ones before unnumbered ones
	lines := gram.Parse("P", nil, "P: NUM HEX LET PRINT END '+' ID '*' | P ID")
	lines.Tokens = []gram.TokDecl{{Name: "NUM", Num: 300}, {Name: "HEX"}, {Name: "LET", Num: 310, Alias: "let"}, {Name: "PRINT", Alias: "print"}, {Name: "END"}, {Name: "'+'"}, {Name: "ID", Tag: "s"}, {Name: "'*'", Tag: "s"}, {Name: "ID", Num: 400}}
	lines.Union = " s string "
	lines.HasUnion = true
	out = append(out, gram.Named{Name: "token-lines", Spec: lines})

	// identifiers that happen to spell directive keywords (without the %) are ordinary names
	kw := gram.Parse("start", nil, "start: left token right | type ; type: prec union | ")
	kw.Start = "start"
	kw.Tokens = []gram.TokDecl{{Name: "left"}, {Name: "token"}, {Name: "right", Num: 70}, {Name: "prec"}, {Name: "union"}, {Name: "nonassoc"}}
	kw.Prec = []gram.PrecLevel{{Assoc: "left", Toks: []string{"left", "right"}}, {Assoc: "right", Toks: []string{"prec"}}}
	kw.Union = " v int "
	kw.HasUnion = true
	kw.Types = []gram.TypeDecl{{Tag: "v", Names: []string{"start", "type"}}}
	out = append(out, gram.Named{Name: "keyword-names", Spec: kw})
	for _, n := range gram.Families() {
		switch n.Name {
		case "precedence-directive", "default-start-not-first", "start-start-not-first", "slr-expr", "nullable-chain", "ambig-expr-prec", "nonassoc-cmp", "lalr-not-nqlalr", "list-of-lists", "prec-literal", "duplicate-rule", "default-start", "rr-split-groups", "name-prefixes", "prec-of-plain-token":
			out = append(out, gram.Named{Name: "family-" + n.Name, Spec: n.Spec})
		}
	}
	cl := gram.Class{N: 2, T: 2, L: 2, R: 2}
	u := cl.Universe()
	cl.Enumerate(false, func(i int64, rules []int) bool {
		out = append(out, gram.Named{Name: fmt.Sprintf("%s#%d", cl, i), Spec: cl.SpecOf(u, rules)})
		return true
	})
	return out
}

func c10Work(w *Worker) {
	var idx int64
	specs := c10Specs()
	if w.Shard == 0 {
		w.Count("specifications", int64(len(specs)))
	}
	for si, n := range specs {
		small := si >= 13 // class grammars and families: fewer option combinations
		for oi := 0; oi < 8; oi++ {
			o := gram.LayoutOpts{NoSemicolon: oi&1 != 0, RepeatLHS: oi&2 != 0, GroupDecls: oi&4 != 0}
			if small && strings.Contains(n.Name, "#") && oi != 0 && oi != 3 {
				continue
			}
			atoms := n.Spec.Atoms(o)
			if o.GroupDecls {
				o2 := o
				o2.GroupDecls = false
				if len(n.Spec.Atoms(o2)) == len(atoms) {
					continue // no two declarations can share a line
				}
			}
			emit := func(c *c10Case) {
				if w.Mine(idx) {
					if idx%32 == 0 {
						w.Begin(idx, c)
					}
					c10Eval(w, c)
				}
				idx++
			}
			emit(&c10Case{Origin: n.Name, Spec: n.Spec, Opts: o})
			// class grammars get the uniform policies only (their gaps are covered by the richer specs)
			for _, sp := range gram.Separators {
				if sp == "" {
					continue
				}
				emit(&c10Case{Origin: n.Name, Spec: n.Spec, Opts: o, Uniform: sp, HasUni: true})
			}
			// uniform: empty wherever allowed
			emit(&c10Case{Origin: n.Name, Spec: n.Spec, Opts: o, Uniform: "", HasUni: true})
			if strings.Contains(n.Name, "#") {
				continue
			}
			for gi, at := range atoms {
				if at.Gap != 'W' && at.Gap != 'O' {
					continue
				}
				for _, sp := range gram.Separators {
					if sp == at.Canon || (sp == "" && at.Gap == 'W') {
						continue
					}
					emit(&c10Case{Origin: n.Name, Spec: n.Spec, Opts: o, Seps: map[int]string{gi: sp}})
				}
			}
			if w.Thorough() && si < 13 {
				for gi, a1 := range atoms {
					for gj := gi + 1; gj < len(atoms); gj++ {
						a2 := atoms[gj]
						if (a1.Gap != 'W' && a1.Gap != 'O') || (a2.Gap != 'W' && a2.Gap != 'O') {
							continue
						}
						for _, s1 := range []string{"/* c */", "// c\n", ""} {
							for _, s2 := range []string{"/* c */", "// c\n", ""} {
								if (s1 == "" && a1.Gap == 'W') || (s2 == "" && a2.Gap == 'W') {
									continue
								}
								emit(&c10Case{Origin: n.Name, Spec: n.Spec, Opts: o, Seps: map[int]string{gi: s1, gj: s2}})
							}
						}
					}
				}
			}
		}
	}
}

func (c *c10Case) text() string {
	atoms := c.Spec.Atoms(c.Opts)
	return gram.RenderAtoms(atoms, func(i int, gap byte, canon string) string {
		if s, ok := c.Seps[i]; ok {
			return s
		}
		if c.HasUni {
			if c.Uniform == "" && gap == 'W' {
				return " "
			}
			return c.Uniform
		}
		return canon
	})
}

func c10Eval(w *Worker, c *c10Case) {
	w.Count("evaluations", 1)
	text := c.text()
	spec := c.Spec
	if len(c.Seps) > 0 || c.HasUni || c.Opts.NoSemicolon || c.Opts.RepeatLHS || c.Opts.GroupDecls {
		w.Distinct(text)
	}
	key := fmt.Sprintf("%s|%v|%v|%q|%v", c.Origin, c.Opts, c.Seps, c.Uniform, c.HasUni)
	bad := func(kind, msg string) {
		w.Violate("C10|"+kind+"|"+key, fmt.Sprintf("%s: specification %q, layout %v seps=%q uniform=%q: %s", kind, c.Origin, c.Opts, c.Seps, c.Uniform, msg), c,
			map[string]interface{}{"text": text, "what": msg})
	}
	g := refOf(&GCase{Spec: spec})
	res := ygo.Build(text, ygo.Options{Fuel: buildFuel})
	if !g.Usable() {
		return
	}
	hasMid := false
	for _, r := range spec.Rules {
		if len(r.Mid) > 0 {
			hasMid = true
		}
	}
	if !res.OK() {
		if hasMid && !res.Fuel && !res.RuntimeErr && res.Diag() != "" {
			// saying no to mid-rule actions is not misreading them
			w.Count("mid_rule_actions_refused_with_diagnostic", 1)
			return
		}
		bad("rejected", "a rendering of a well-formed specification is refused: "+res.Diag())
		return
	}
	vw, err := ygo.NewView(res.V, g)
	if err != nil {
		bad("rules-or-symbols-differ", err.Error())
		return
	}
	v := res.V
	// start symbol: right-hand side of rule 0
	if r0 := v.G.ProductoinRules[0]; len(r0.RighPart) != 1 || vw.SpecName(int(r0.RighPart[0].ID)) != spec.StartSymbol() {
		bad("start-symbol", "the augmented rule does not start from "+spec.StartSymbol())
		return
	}
	for i, r := range spec.Rules {
		pr := v.G.ProductoinRules[i+1]
		one := v.GetRules(i)
		wantAct := ""
		if r.HasAct || r.Action != "" {
			wantAct = "{" + r.Action + "}"
		}
		if len(r.Mid) > 0 {
			// yaccgo keeps one action text per rule: every body written in the rule must be in it
			// (the key does not depend on the layout: one finding, however the file is laid out)
			for _, m := range append(append([]gram.MidAct(nil), r.Mid...), gram.MidAct{Text: r.Action}) {
				if strings.TrimSpace(m.Text) != "" && !strings.Contains(one.ActionCode, strings.TrimSpace(m.Text)) {
					w.Violate(fmt.Sprintf("C10|action-body-lost|%s|rule %d", c.Origin, i+1),
						fmt.Sprintf("action-body-lost: specification %q, rule %d (%s): the action body {%s} written in the rule is dropped without a diagnostic, yaccgo keeps only %q", c.Origin, i+1, r.String(), m.Text, one.ActionCode), c,
						map[string]interface{}{"text": text})
					return
				}
			}
			continue
		}
		if one.ActionCode != wantAct {
			bad("action-body", fmt.Sprintf("rule %d (%s): action is %q, the file says %q", i+1, r.String(), one.ActionCode, wantAct))
			return
		}
		if r.Prec != "" {
			lvl := 0
			for li, p := range spec.Prec {
				for _, t := range p.Toks {
					if t == r.Prec {
						lvl = li + 1
					}
				}
			}
			if lvl > 0 {
				if pr.PrecSymbol == nil || vw.SpecName(int(pr.PrecSymbol.ID)) != r.Prec {
					got := "none"
					if pr.PrecSymbol != nil {
						got = pr.PrecSymbol.Name
					}
					bad("prec-annotation", fmt.Sprintf("rule %d (%s): %%prec symbol is %s", i+1, r.String(), got))
					return
				}
			}
		}
	}
	// token numbers, tags, precedence
	wantNum := map[string]int{}
	wantTag := map[string]string{}
	for _, t := range spec.Tokens {
		if t.Num != 0 {
			wantNum[t.Name] = t.Num
		}
		if t.Tag != "" {
			wantTag[t.Name] = t.Tag
		}
	}
	for _, pl := range spec.Prec {
		for i, t := range pl.Toks {
			if i < len(pl.Nums) && pl.Nums[i] != 0 {
				wantNum[t] = pl.Nums[i]
			}
		}
		if pl.Tag != "" {
			for _, t := range pl.Toks {
				wantTag[t] = pl.Tag
			}
		}
	}
	for _, t := range spec.Types {
		for _, n := range t.Names {
			wantTag[n] = t.Tag
		}
	}
	wantLvl := map[string]int{}
	wantAssoc := map[string]symbol.E_Precedence{}
	levelOnly := map[string]bool{} // %precedence: a level, no associativity to compare
	for li, p := range spec.Prec {
		for _, t := range p.Toks {
			wantLvl[t] = li + 1
			levelOnly[t] = p.Assoc == "precedence"
			switch p.Assoc {
			case "left":
				wantAssoc[t] = symbol.LEFT
			case "right":
				wantAssoc[t] = symbol.RIGHT
			default:
				wantAssoc[t] = symbol.NONE
			}
		}
	}
	declared := map[int]int{}
	for _, n := range wantNum {
		declared[n]++
	}
	byCode := map[int]string{}
	for id, sy := range v.G.Symbols {
		if id < 2 {
			continue
		}
		name := vw.SpecName(id)
		if !sy.IsNonTerminator {
			if other, dup := byCode[int(sy.Value)]; dup && declared[int(sy.Value)] < 2 {
				bad("token-number", fmt.Sprintf("tokens %s and %s both have code %d", other, name, int(sy.Value)))
				return
			}
			byCode[int(sy.Value)] = name
		}
		if gram.IsLit(name) && int(sy.Value) != int(gram.LitRune(name)) {
			bad("token-number", fmt.Sprintf("literal %s has code %d", name, int(sy.Value)))
			return
		}
		if n, ok := wantNum[name]; ok && int(sy.Value) != n {
			bad("token-number", fmt.Sprintf("token %s has code %d, declared %d", name, int(sy.Value), n))
			return
		}
		if sy.Tag != wantTag[name] {
			bad("value-tag", fmt.Sprintf("symbol %s has tag %q, declared %q", name, sy.Tag, wantTag[name]))
			return
		}
		if !sy.IsNonTerminator {
			if l, ok := wantLvl[name]; ok {
				if sy.Prec != l || (sy.PrecType != wantAssoc[name] && !levelOnly[name]) {
					bad("precedence", fmt.Sprintf("token %s has level %d assoc %d, declared level %d assoc %d", name, sy.Prec, sy.PrecType, l, wantAssoc[name]))
					return
				}
			} else if sy.Prec != -1 {
				bad("precedence", fmt.Sprintf("token %s has level %d but no precedence was declared for it", name, sy.Prec))
				return
			}
		}
	}
	if strings.TrimSpace(v.GetCode()) != strings.TrimSpace(spec.Prologue) {
		bad("prologue", fmt.Sprintf("prologue is %q, the file says %q", v.GetCode(), spec.Prologue))
		return
	}
	if strings.TrimSpace(v.GetUion()) != strings.TrimSpace(spec.Union) {
		bad("union", fmt.Sprintf("union body is %q, the file says %q", v.GetUion(), spec.Union))
		return
	}
	if v.GetCodeCopy() != spec.Epilogue {
		bad("epilogue", fmt.Sprintf("epilogue is %q, the file says %q", clip(v.GetCodeCopy(), 200), clip(spec.Epilogue, 200)))
		return
	}
	// generated files carry the parts (canonical and uniform renderings only: the builder reads the same visitor)
	if len(c.Seps) == 0 {
		for _, lang := range []string{"go", "typescript"} {
			path := filepath.Join(w.Scratch, fmt.Sprintf("c10-%d.out", w.Shard))
			r2 := ygo.Generate(lang, text, path, ygo.Options{Fuel: buildFuel})
			b, _ := os.ReadFile(path)
			os.Remove(path)
			if !r2.OK2() {
				// $n out of range etc. cannot happen for these specs
				bad("generator-refused", lang+": "+r2.Diag())
				return
			}
			out := string(b)
			w.Count("generated_files_inspected", 1)
			if !strings.Contains(out, strings.TrimSpace(spec.Prologue)) {
				bad("output-prologue", lang+": the generated file does not contain the prologue")
				return
			}
			if !strings.Contains(out, strings.TrimSpace(spec.Union)) {
				bad("output-union", lang+": the generated file does not contain the %union body")
				return
			}
			if !strings.HasSuffix(out, spec.Epilogue) {
				bad("output-epilogue", lang+": the generated file does not end with the epilogue")
				return
			}
			for i, r := range spec.Rules {
				if r.Action == "" {
					continue
				}
				// the action body appears under `case i+1` with $$/$n substituted: check the substitution-free fragments
				for _, frag := range strings.FieldsFunc(r.Action, func(r rune) bool { return r == '$' }) {
					frag = strings.TrimLeft(frag, "0123456789")
					if len(strings.TrimSpace(frag)) > 3 && !strings.Contains(out, frag) {
						bad("output-action", fmt.Sprintf("%s: the body of rule %d is not in the generated file (fragment %q)", lang, i+1, frag))
						return
					}
				}
			}
		}
	}
	w.SampleEvery(w.Out.Counters["evaluations"], 1999, func() interface{} { return map[string]interface{}{"origin": c.Origin, "text": text} })
}

func clip(s string, n int) string {
	if len(s) > n {
		return s[:n] + "..."
	}
	return s
}
