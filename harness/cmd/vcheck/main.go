// vcheck: one sub-command per property.
//
//	vcheck run <Cxx> <quick|thorough>     coordinator (spawns workers)
//	vcheck replay <file>                  re-execute a replay file
//	vcheck worker ... / replaycase ...    internal
package main

import (
	"encoding/json"
	"fmt"
	"os"

	"verifharness/evid"
)

func main() {
	if len(os.Args) < 2 {
		usage()
	}
	switch os.Args[1] {
	case "run":
		if len(os.Args) != 4 {
			usage()
		}
		os.Exit(coordinator(os.Args[2], os.Args[3]))
	case "worker":
		workerMain(os.Args[2:])
	case "replaycase":
		replayMain(os.Args[2], os.Args[3], os.Args[4])
	case "replay":
		if len(os.Args) != 3 {
			usage()
		}
		os.Exit(replayFile(os.Args[2]))
	case "list":
		for id := range checks {
			fmt.Println(id)
		}
	default:
		usage()
	}
}

func usage() {
	fmt.Fprintln(os.Stderr, "usage: vcheck run <Cxx> <quick|thorough> | vcheck replay <file>")
	os.Exit(3)
}

// replayFile re-executes a stored counterexample without the explorer.
func replayFile(path string) int {
	b, err := os.ReadFile(path)
	evid.Must(err)
	var r evid.Replay
	evid.Must(json.Unmarshal(b, &r))
	c := checks[r.Property]
	if c == nil {
		fmt.Fprintln(os.Stderr, "unknown property in replay file:", r.Property)
		return 3
	}
	scratch, err := os.MkdirTemp("", "vreplay-")
	evid.Must(err)
	defer os.RemoveAll(scratch)
	os.Setenv("VERIF_SCRATCH", scratch)
	o, died, tail := runReplaySub(r.Property, r.Case, scratch, "file")
	if died {
		fmt.Printf("replay: the process died on this case\n%s\n", tail)
		fmt.Printf("VIOLATION property=%s replay=%s\n", r.Property, path)
		return 1
	}
	hit := false
	for _, v := range o.Violations {
		fmt.Printf("replay: %s\n", v.Summary)
		if v.Key == r.Key {
			hit = true
			d, _ := json.MarshalIndent(v.Detail, "  ", " ")
			fmt.Printf("  %s\n", d)
		}
	}
	if hit {
		fmt.Printf("VIOLATION property=%s replay=%s\n", r.Property, path)
		return 1
	}
	if len(o.Violations) > 0 {
		fmt.Println("replay: the recorded violation did not reproduce, but other violations of the case did")
		fmt.Printf("VIOLATION property=%s replay=%s\n", r.Property, path)
		return 1
	}
	fmt.Println("replay: the case passes on the current tree")
	return 0
}
