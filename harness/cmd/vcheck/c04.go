package main

import (
	"encoding/json"
	"fmt"
	"sort"
	"strings"

	"verifharness/gen"
	"verifharness/gram"
	"verifharness/lrm"
	"verifharness/ref"
	"verifharness/ygo"
)

// C04: conflicts are resolved by declared precedence/associativity, else by
// the yacc defaults.

func init() {
	register(&CheckDef{
		ID:    "C04",
		Level: "exploration",
		Rule: "(a) cell level: every rule set of the small classes that has at least one LALR(1) conflict cell x every decoration (each terminal unranked or on one of two levels, every associativity per used level, every %prec choice per rule, both rule orders): every two-way conflict cell of yaccgo's dense table must hold the action the property prescribes; cells the statement does not cover (more than two candidates, reduce/reduce with precedence on both rules, rule precedence from a non-last terminal) must still hold one of the candidates or error; all other cells must hold their only candidate; " +
			"(b) expression level: every operator table (<=3 binary operators on <=3 levels, every associativity per level, optional unary minus bound by %prec to an existing level or a level of its own at every position, parentheses) x every sentence of the underlying ambiguous grammar up to the length bound: the tree built from the reductions of yaccgo's table must equal the tree of a precedence-climbing reference (and a syntax error where %nonassoc forbids the chain); (c) the same on generated parsers for a selection of tables; " +
			"non-trivial = decorated grammar with a conflict cell / operator table; distinct = distinct (rule list, decoration)",
		Assumptions: []string{
			"reference conflict cells from the LR(1)-merge table; reference resolution transcribed from the property text (ref.resolve)",
			"precedence-climbing reference (cmd/vcheck/c04.go: pcParser) for the expression level",
		},
		Work: func(w *Worker) {
			c04Cells(w)
			c04Tables(w)
			c04Gen(w)
		},
		Replay: func(w *Worker, raw json.RawMessage) {
			var c GCase
			if json.Unmarshal(raw, &c) != nil {
				return
			}
			switch c.Origin {
			case "optable":
				c04OneTable(w, &c)
			case "gen":
				genReplay(w, "C04", &c)
			default:
				if c.Spec != nil {
					c04OneCellCase(w, &c)
					c04RefSentences(w, &c, 7)
				}
			}
		},
	})
}

// ---------------------------------------------------------------------------
// (a) cell level

type levelAssign struct {
	levels map[string]int // terminal -> level (1-based), absent = none
	n      int
}

// levelAssignments enumerates, up to renumbering, every assignment of the
// terminals to "no level" or one of at most maxLevels ordered levels.
func levelAssignments(terms []string, maxLevels int) []levelAssign {
	var out []levelAssign
	seen := map[string]bool{}
	cur := make([]int, len(terms))
	var rec func(i int)
	rec = func(i int) {
		if i == len(terms) {
			// renumber used levels to 1..n keeping their order
			used := map[int]bool{}
			for _, l := range cur {
				if l > 0 {
					used[l] = true
				}
			}
			var ls []int
			for l := range used {
				ls = append(ls, l)
			}
			sort.Ints(ls)
			re := map[int]int{}
			for k, l := range ls {
				re[l] = k + 1
			}
			la := levelAssign{levels: map[string]int{}, n: len(ls)}
			key := ""
			for k, t := range terms {
				if cur[k] > 0 {
					la.levels[t] = re[cur[k]]
				}
				key += fmt.Sprint(re[cur[k]], ",")
			}
			if !seen[key] {
				seen[key] = true
				out = append(out, la)
			}
			return
		}
		for l := 0; l <= maxLevels; l++ {
			cur[i] = l
			rec(i + 1)
		}
	}
	rec(0)
	return out
}

var assocs = []string{"left", "right", "nonassoc"}

// decorations calls f with every decoration of base.
func decorations(base *gram.Spec, terms []string, f func(s *gram.Spec)) {
	for _, la := range levelAssignments(terms, 2) {
		na := 1
		for i := 0; i < la.n; i++ {
			na *= 3
		}
		for ac := 0; ac < na; ac++ {
			var prec []gram.PrecLevel
			x := ac
			for l := 1; l <= la.n; l++ {
				pl := gram.PrecLevel{Assoc: assocs[x%3]}
				x /= 3
				for _, t := range terms {
					if la.levels[t] == l {
						pl.Toks = append(pl.Toks, t)
					}
				}
				prec = append(prec, pl)
			}
			np := 1
			for range base.Rules {
				np *= len(terms) + 1
			}
			for pc := 0; pc < np; pc++ {
				s := &gram.Spec{Start: base.Start, Tokens: base.Tokens, Prec: prec}
				y := pc
				for _, r := range base.Rules {
					k := y % (len(terms) + 1)
					y /= len(terms) + 1
					nr := gram.Rule{L: r.L, R: r.R}
					if k > 0 {
						nr.Prec = terms[k-1]
					}
					s.Rules = append(s.Rules, nr)
				}
				f(s)
			}
		}
	}
}

func c04CellClasses(w *Worker) []gram.Class {
	if w.Thorough() {
		return []gram.Class{{N: 1, T: 2, L: 3, R: 3}, {N: 2, T: 2, L: 2, R: 3}}
	}
	return []gram.Class{{N: 1, T: 2, L: 3, R: 2}, {N: 2, T: 2, L: 2, R: 2}}
}

func c04Cells(w *Worker) {
	var idx int64
	for _, cl := range c04CellClasses(w) {
		u := cl.Universe()
		terms := gram.TNames[:cl.T]
		cl.Enumerate(false, func(i int64, rules []int) bool {
			base := cl.SpecOf(u, rules)
			g := ref.FromSpec(base)
			if !g.Usable() {
				return true
			}
			t := g.LR0().Table()
			if t.ConflictFree {
				return true
			}
			if w.Shard == 0 {
				w.Count("base_grammars_with_conflicts", 1)
			}
			orders := []*gram.Spec{base}
			if len(base.Rules) > 1 {
				rev := &gram.Spec{Start: base.Start, Tokens: base.Tokens}
				for k := len(base.Rules) - 1; k >= 0; k-- {
					rev.Rules = append(rev.Rules, base.Rules[k])
				}
				orders = append(orders, rev)
			}
			for _, b := range orders {
				decorations(b, terms, func(s *gram.Spec) {
					if w.Mine(idx) {
						c := &GCase{Origin: cl.String() + "+prec", Spec: s}
						if idx%64 == 0 {
							w.Begin(idx, c)
						}
						c04OneCellCase(w, c)
					}
					idx++
				})
			}
			return true
		})
	}
	// mixfix rules: two (three) precedence-bearing terminals in ONE rule, every assignment of the
	// terminals to up to three levels and every associativity (no %prec variations)
	mix := []*gram.Spec{
		{Start: "E", Tokens: []gram.TokDecl{{Name: "TA"}}, Rules: []gram.Rule{{L: "E", R: []string{"E", "'?'", "E", "':'", "E"}}, {L: "E", R: []string{"E", "'+'", "E"}}, {L: "E", R: []string{"TA"}}}},
		{Start: "E", Tokens: []gram.TokDecl{{Name: "TA"}}, Rules: []gram.Rule{{L: "E", R: []string{"'?'", "E", "':'", "E"}}, {L: "E", R: []string{"E", "':'", "E"}}, {L: "E", R: []string{"E", "'?'"}}, {L: "E", R: []string{"TA"}}}},
	}
	for _, base := range mix {
		terms := []string{"'?'", "':'", "'+'"}
		if len(base.Rules) == 4 {
			terms = terms[:2]
		}
		for _, la := range levelAssignments(terms, 3) {
			na := 1
			for i := 0; i < la.n; i++ {
				na *= 3
			}
			for ac := 0; ac < na; ac++ {
				s := &gram.Spec{Start: base.Start, Tokens: base.Tokens, Rules: base.Rules}
				x := ac
				for l := 1; l <= la.n; l++ {
					pl := gram.PrecLevel{Assoc: assocs[x%3]}
					x /= 3
					for _, t := range terms {
						if la.levels[t] == l {
							pl.Toks = append(pl.Toks, t)
						}
					}
					s.Prec = append(s.Prec, pl)
				}
				if w.Mine(idx) {
					c04OneCellCase(w, &GCase{Origin: "mixfix+prec", Spec: s})
					c04RefSentences(w, &GCase{Origin: "mixfix+prec", Spec: s}, 6)
				}
				idx++
			}
		}
	}
	// family grammars with precedence, and those whose conflicts the defaults decide
	for _, n := range gram.Families() {
		if (len(n.Spec.Prec) > 0 || famHasDecidedConflicts(n.Spec)) && w.Mine(idx) {
			c04OneCellCase(w, &GCase{Origin: "family:" + n.Name, Spec: n.Spec})
			c04RefSentences(w, &GCase{Origin: "family:" + n.Name, Spec: n.Spec}, 7)
		}
		idx++
	}
}

func cellKey(s *gram.Spec) string { return s.Key() }

// famHasDecidedConflicts: the grammar is usable, has conflicts and the statement decides every one of them.
func famHasDecidedConflicts(s *gram.Spec) bool {
	g := ref.FromSpec(s)
	if !g.Usable() {
		return false
	}
	t := g.LR0().Table()
	return !t.ConflictFree && t.AllJudged()
}

// precOnOneLine writes consecutive precedence directives of a rendered specification on one physical
// line (`%left '+' %left '*' %right TU`): yacc input is free-format, the levels are counted per directive.
func precOnOneLine(text string) string {
	isPrec := func(l string) bool {
		for _, d := range []string{"%left", "%right", "%nonassoc", "%precedence"} {
			if strings.HasPrefix(l, d) {
				return true
			}
		}
		return false
	}
	lines := strings.Split(text, "\n")
	var out []string
	for i, l := range lines {
		if i > 0 && isPrec(l) && isPrec(lines[i-1]) {
			out[len(out)-1] += " " + l
			continue
		}
		out = append(out, l)
	}
	return strings.Join(out, "\n")
}

func c04OneCellCase(w *Worker, c *GCase) {
	w.Count("evaluations", 1)
	g := ref.FromSpec(c.Spec)
	if !g.Usable() {
		return
	}
	text := c.Spec.Render()
	if len(c.Spec.Prec) > 1 && w.Out.Counters["evaluations"]%2 == 0 {
		// every second decorated grammar with the precedence directives on one physical line
		text = precOnOneLine(text)
		w.Count("precedence_directives_on_one_line", 1)
	}
	res := ygo.Build(text, ygo.Options{Fuel: buildFuel})
	if !res.OK() {
		w.Count("skipped_yaccgo_refused_usable_grammar", 1)
		return
	}
	vw, err := ygo.NewView(res.V, g)
	if err != nil {
		w.Count("skipped_front_end_mismatch", 1)
		w.SetAdd("front_end_mismatch", err.Error())
		return
	}
	a := g.LR0()
	y2r, ok := mapStates(vw, a)
	if !ok {
		w.Count("skipped_lr0_mismatch", 1)
		return
	}
	r2y := make([]int, len(y2r))
	for y, r := range y2r {
		r2y[r] = y
	}
	t := a.Table()
	key := cellKey(c.Spec)
	w.Distinct(key)
	w.SampleEvery(w.Out.Counters["evaluations"], 20011, func() interface{} {
		return map[string]interface{}{"grammar": key, "conflict_free": t.ConflictFree}
	})
	decode := func(v int) ref.Act {
		switch {
		case v == vw.Err:
			return ref.Act{Kind: ref.Error}
		case v == vw.Acc:
			return ref.Act{Kind: ref.Accept}
		case v > 0:
			if v < len(y2r) {
				return ref.Act{Kind: ref.Shift, Arg: y2r[v]}
			}
			return ref.Act{Kind: ref.Shift, Arg: -1}
		}
		return ref.Act{Kind: ref.Reduce, Arg: -v}
	}
	for ys := 0; ys < vw.NStates; ys++ {
		rs := y2r[ys]
		row := vw.V.GTable[ys]
		for ysym, v := range row {
			if ysym == 0 {
				continue
			}
			x := vw.SymToRef[ysym]
			if x < len(g.IsNT) && g.IsNT[x] {
				continue // goto part: covered by C09 / C01
			}
			got := decode(v)
			cell := t.Cells[rs][x]
			w.Count("cells_compared", 1)
			where := fmt.Sprintf("state %s, lookahead %s", itemsText(g, a.States[rs].Items), symName(g, x))
			fail := func(kind, msg string) {
				w.Violate("C04|"+kind+"|"+key, fmt.Sprintf("%s: grammar [%s], %s: %s", kind, key, where, msg), c,
					map[string]interface{}{"grammar_text": text, "cell": where, "yaccgo": got.String(), "stdout": tailStr(res.Stdout, 400)})
			}
			if cell == nil {
				if got.Kind != ref.Error {
					fail("action-in-empty-cell", "the table holds "+got.String()+" where no action is possible")
					return
				}
				continue
			}
			if len(cell.Cands) > 1 {
				w.Count("conflict_cells", 1)
			}
			if cell.Judged {
				if len(cell.Cands) > 1 {
					w.Count("conflict_cells_judged", 1)
				}
				if got != cell.Want {
					kind := "wrong-resolution"
					if len(cell.Cands) == 1 {
						kind = "wrong-action"
					}
					fail(kind, fmt.Sprintf("candidates %v, the declarations prescribe %s, the table holds %s", cell.Cands, cell.Want, got))
					return
				}
				continue
			}
			w.Count("conflict_cells_unspecified", 1)
			okc := got.Kind == ref.Error
			for _, cd := range cell.Cands {
				if cd == got {
					okc = true
				}
			}
			if !okc {
				fail("resolution-outside-candidates", fmt.Sprintf("candidates %v (%s), the table holds %s", cell.Cands, cell.Why, got))
				return
			}
		}
	}
}

// ---------------------------------------------------------------------------
// (b) expression level

type opTable struct {
	Levels []opLevel `json:"levels"` // lowest first
	Unary  string    `json:"unary"`  // "" | "own:<pos>" | "as:<tok>"
	Parens bool      `json:"parens"`
}

type opLevel struct {
	Assoc string   `json:"assoc"`
	Ops   []string `json:"ops"`
}

var binOps = []string{"'+'", "'*'", "'<'"}

func (t *opTable) spec() *gram.Spec {
	s := &gram.Spec{Start: "E", Tokens: []gram.TokDecl{{Name: "TA"}}}
	levels := append([]opLevel(nil), t.Levels...)
	unaryPrec := ""
	if strings.HasPrefix(t.Unary, "own:") {
		pos := int(t.Unary[4] - '0')
		lv := opLevel{Assoc: t.Unary[6:], Ops: []string{"TU"}}
		levels = append(levels[:pos], append([]opLevel{lv}, levels[pos:]...)...)
		unaryPrec = "TU"
	} else if strings.HasPrefix(t.Unary, "as:") {
		unaryPrec = t.Unary[3:]
	}
	for _, l := range levels {
		s.Prec = append(s.Prec, gram.PrecLevel{Assoc: l.Assoc, Toks: l.Ops})
	}
	for _, l := range t.Levels {
		for _, op := range l.Ops {
			s.Rules = append(s.Rules, gram.Rule{L: "E", R: []string{"E", op, "E"}})
		}
	}
	if t.Unary != "" {
		s.Rules = append(s.Rules, gram.Rule{L: "E", R: []string{"'-'", "E"}, Prec: unaryPrec})
	}
	if t.Parens {
		s.Rules = append(s.Rules, gram.Rule{L: "E", R: []string{"'('", "E", "')'"}})
	}
	s.Rules = append(s.Rules, gram.Rule{L: "E", R: []string{"TA"}})
	return s
}

// opTables enumerates the operator tables of the tier.
func opTables(w *Worker) []*opTable {
	var out []*opTable
	maxOps := 2
	if w.Thorough() {
		maxOps = 3
	}
	for k := 1; k <= maxOps; k++ {
		ops := binOps[:k]
		// ordered set partitions of ops into levels
		var parts [][][]string
		var rec func(i int, cur [][]string)
		rec = func(i int, cur [][]string) {
			if i == len(ops) {
				cp := make([][]string, len(cur))
				for j := range cur {
					cp[j] = append([]string(nil), cur[j]...)
				}
				parts = append(parts, cp)
				return
			}
			for j := range cur {
				cur[j] = append(cur[j], ops[i])
				rec(i+1, cur)
				cur[j] = cur[j][:len(cur[j])-1]
			}
			for pos := 0; pos <= len(cur); pos++ {
				n := append(append(append([][]string(nil), cur[:pos]...), []string{ops[i]}), cur[pos:]...)
				rec(i+1, n)
			}
		}
		rec(0, nil)
		seen := map[string]bool{}
		for _, p := range parts {
			key := fmt.Sprint(p)
			if seen[key] {
				continue
			}
			seen[key] = true
			na := 1
			for range p {
				na *= 3
			}
			for ac := 0; ac < na; ac++ {
				var lv []opLevel
				x := ac
				for _, ops := range p {
					lv = append(lv, opLevel{Assoc: assocs[x%3], Ops: ops})
					x /= 3
				}
				unaries := []string{""}
				for _, l := range lv {
					unaries = append(unaries, "as:"+l.Ops[0])
				}
				for pos := 0; pos <= len(lv); pos++ {
					for _, as := range assocs {
						unaries = append(unaries, fmt.Sprintf("own:%d:%s", pos, as))
					}
				}
				for _, un := range unaries {
					for _, par := range []bool{false, true} {
						out = append(out, &opTable{Levels: lv, Unary: un, Parens: par})
					}
				}
			}
		}
	}
	return out
}

func c04Tables(w *Worker) {
	idx := int64(1) << 43
	for _, t := range opTables(w) {
		if w.Mine(idx) {
			c := &GCase{Origin: "optable", Spec: t.spec(), Extra: mustJSON(t)}
			w.Begin(idx, c)
			c04OneTable(w, c)
		}
		idx++
	}
}

// pcParser is the precedence-climbing reference.
type pcParser struct {
	toks   []string
	pos    int
	level  map[string]int
	assoc  map[string]string
	ulevel int
	uassoc string
	err    bool
}

func (p *pcParser) peek() string {
	if p.pos < len(p.toks) {
		return p.toks[p.pos]
	}
	return ""
}

func (p *pcParser) primary() string {
	switch t := p.peek(); t {
	case "TA":
		p.pos++
		return "a"
	case "'('":
		p.pos++
		x := p.operand(0, "")
		if p.peek() != "')'" {
			p.err = true
			return ""
		}
		p.pos++
		return x
	case "'-'":
		p.pos++
		x := p.operand(p.ulevel, p.uassoc)
		return "(-" + x + ")"
	}
	p.err = true
	return ""
}

// operand parses the right operand of an operator of level c / assoc ca
// (c = 0: no context).
func (p *pcParser) operand(c int, ca string) string {
	lhs := p.primary()
	for !p.err {
		op := p.peek()
		l2, isBin := p.level[op]
		if !isBin || op == "TU" {
			return lhs
		}
		if c > 0 {
			if l2 < c {
				return lhs
			}
			if l2 == c {
				switch ca {
				case "left":
					return lhs
				case "nonassoc":
					p.err = true
					return ""
				}
			}
		}
		p.pos++
		rhs := p.operand(l2, p.assoc[op])
		lhs = "(" + lhs + strings.Trim(op, "'") + rhs + ")"
	}
	return ""
}

func c04OneTable(w *Worker, c *GCase) {
	w.Count("evaluations", 1)
	w.Count("operator_tables", 1)
	var ot opTable
	json.Unmarshal(c.Extra, &ot)
	g := ref.FromSpec(c.Spec)
	text := c.Spec.Render()
	key := "optable " + string(c.Extra)
	if w.Out.Counters["operator_tables"]%2 == 0 {
		text = precOnOneLine(text) // every second operator table with all its levels on one physical line
	}
	res := ygo.Build(text, ygo.Options{Fuel: buildFuel})
	if !res.OK() {
		w.Violate("C04|optable-refused|"+key, "operator grammar refused: "+res.Diag(), c, map[string]interface{}{"grammar_text": text})
		return
	}
	vw, err := ygo.NewView(res.V, g)
	if err != nil {
		w.Count("skipped_front_end_mismatch", 1)
		w.SetAdd("front_end_mismatch", err.Error())
		return
	}
	w.Distinct(key)
	// cell-level comparison for this decorated grammar as well
	c04OneCellCase(w, &GCase{Origin: c.Origin, Spec: c.Spec})
	c04RefSentences(w, c, 5)
	m := lrm.Dense(vw.V)
	e := ref.NewEarley(g)
	maxLen := 5
	if w.Thorough() {
		maxLen = 7
	}
	level := map[string]int{}
	assoc := map[string]string{}
	for i, l := range c.Spec.Prec {
		for _, t := range l.Toks {
			level[t] = i + 1
			assoc[t] = l.Assoc
		}
	}
	ulevel, uassoc := 0, ""
	for _, r := range c.Spec.Rules {
		if len(r.R) == 2 && r.R[0] == "'-'" {
			ulevel, uassoc = level[r.Prec], assoc[r.Prec]
		}
	}
	var terms []int
	for i, nt := range g.IsNT {
		if !nt && g.Names[i] != "TU" {
			terms = append(terms, i)
		}
	}
	violated := false
	var rec func(chart []*ref.ESet, toks []int)
	rec = func(chart []*ref.ESet, toks []int) {
		if violated {
			return
		}
		if e.Accepts(chart) {
			w.Count("sentences", 1)
			names := make([]string, len(toks))
			for i, t := range toks {
				names[i] = g.Names[t]
			}
			pc := &pcParser{toks: names, level: level, assoc: assoc, ulevel: ulevel, uassoc: uassoc}
			want := pc.operand(0, "")
			if !pc.err && pc.pos != len(names) {
				pc.err = true
			}
			got, gerr := treeFromModel(m, vw, g, c.Spec, toks)
			in := strings.Join(names, " ")
			switch {
			case pc.err && gerr == "":
				violated = true
				w.Violate("C04|nonassoc-chain-accepted|"+key, fmt.Sprintf("operator table %s: input [%s] chains %%nonassoc operators and must be a syntax error, the parser groups it as %s", c.Extra, in, got), c,
					map[string]interface{}{"grammar_text": text, "input": in})
			case !pc.err && gerr != "":
				violated = true
				w.Violate("C04|expression-rejected|"+key, fmt.Sprintf("operator table %s: input [%s] must group as %s, the parser answers %s", c.Extra, in, want, gerr), c,
					map[string]interface{}{"grammar_text": text, "input": in})
			case !pc.err && got != want:
				violated = true
				w.Violate("C04|wrong-grouping|"+key, fmt.Sprintf("operator table %s: input [%s] must group as %s, the parser groups it as %s", c.Extra, in, want, got), c,
					map[string]interface{}{"grammar_text": text, "input": in, "want": want, "got": got})
			}
		}
		if len(toks) >= maxLen {
			return
		}
		for _, t := range terms {
			if e.CanShift(chart, t) {
				nc, _ := e.Step(chart, t)
				rec(nc, append(append([]int(nil), toks...), t))
			}
		}
	}
	rec(e.Start(), nil)
}

// treeFromModel runs the model on a complete token string and builds the
// fully parenthesised expression from its reductions.
func treeFromModel(m *lrm.Machine, vw *ygo.View, g *ref.Grammar, s *gram.Spec, toks []int) (string, string) {
	c := lrm.Initial()
	var st []string
	pos := 0
	for {
		la := 1
		if pos < len(toks) {
			la = vw.RefToSym[toks[pos]]
		}
		next, sr := m.Step(c, la, 4000)
		for _, ev := range sr.Events {
			switch ev.Kind {
			case 's':
				st = append(st, strings.Trim(g.Names[toks[pos]], "'"))
			case 'r':
				st = reduceTree(st, s.Rules[ev.Rule-1])
			}
		}
		c = next
		switch sr.Out {
		case lrm.Shifted:
			pos++
			continue
		case lrm.Accepted:
			if len(st) != 1 {
				return "", "accept with a broken stack"
			}
			return st[0], ""
		}
		return "", sr.Out.String()
	}
}

func reduceTree(st []string, r gram.Rule) []string {
	n := len(r.R)
	if n > len(st) {
		return append(st, "?")
	}
	args := st[len(st)-n:]
	var v string
	switch {
	case n == 1:
		v = "a"
	case n == 2:
		v = "(-" + args[1] + ")"
	case r.R[0] == "'('":
		v = args[1]
	default:
		v = "(" + args[0] + args[1] + args[2] + ")"
	}
	return append(st[:len(st)-n], v)
}

// ---------------------------------------------------------------------------
// (c) generated parsers for a selection of operator tables

func c04Gen(w *Worker) {
	tables := opTables(w)
	stride := 12
	if w.Thorough() {
		stride = 16
	}
	var mine []*genCase
	k := 0
	for i, t := range tables {
		if i%stride != 3 {
			continue
		}
		if w.Mine(int64(k)) {
			mine = append(mine, &genCase{Origin: "optable:" + string(mustJSON(t)), Spec: t.spec()})
		}
		k++
	}
	if w.Shard == 0 {
		w.Count("gen_operator_tables", int64(k))
	}
	if len(mine) > 0 {
		w.Begin(int64(1)<<46, map[string]interface{}{"origin": "gen-batch-optables"})
		genBatch(w, "C04", mine, fmt.Sprintf("C04-%d", w.Shard))
	}
}

// c04GenJudge: on sentences of the underlying grammar, the tree from the
// generated parser's reductions must equal the precedence-climbing tree.
func c04GenJudge(w *Worker, o *obs, variants []string, bad func(kind, variant, in, msg string, detail map[string]interface{})) {
	level := map[string]int{}
	assoc := map[string]string{}
	for i, l := range o.c.Spec.Prec {
		for _, t := range l.Toks {
			level[t] = i + 1
			assoc[t] = l.Assoc
		}
	}
	ulevel, uassoc := 0, ""
	isExpr := false
	for _, r := range o.c.Spec.Rules {
		if len(r.R) == 2 && r.R[0] == "'-'" {
			ulevel, uassoc = level[r.Prec], assoc[r.Prec]
		}
		if r.L == "E" {
			isExpr = true
		}
	}
	if !isExpr {
		return
	}
	e := ref.NewEarley(o.g)
	for _, v := range variants {
		runs := o.runs[v]
		if len(runs) != len(o.inputs) {
			continue
		}
		for i, in := range o.inputs {
			toks := o.toks(in)
			okTok := true
			for _, t := range toks {
				if t < 0 {
					okTok = false
				}
			}
			if !okTok || !e.Member(toks) {
				continue
			}
			names := make([]string, len(toks))
			for k, t := range toks {
				names[k] = o.g.Names[t]
			}
			pc := &pcParser{toks: names, level: level, assoc: assoc, ulevel: ulevel, uassoc: uassoc}
			want := pc.operand(0, "")
			if !pc.err && pc.pos != len(names) {
				pc.err = true
			}
			r := runs[i]
			w.Count("gen_expressions_compared", 1)
			if pc.err {
				if r.Class == "accept" {
					bad("nonassoc-chain-accepted", v, in, "chained %nonassoc operators must be a syntax error", nil)
					return
				}
				continue
			}
			if r.Class != "accept" {
				bad("expression-rejected", v, in, "must group as "+want+", the parser answers "+r.Class+" "+r.Panic, nil)
				return
			}
			var st []string
			shifted := 0
			for _, rd := range r.Reds {
				for shifted < rd.Fetches-1 && shifted < len(toks) {
					st = append(st, strings.Trim(names[shifted], "'"))
					shifted++
				}
				if rd.Rule >= 1 && rd.Rule <= len(o.c.Spec.Rules) {
					st = reduceTree(st, o.c.Spec.Rules[rd.Rule-1])
				}
			}
			got := strings.Join(st, " ")
			if got != want {
				bad("wrong-grouping", v, in, "must group as "+want+", the generated parser groups it as "+got, nil)
				return
			}
		}
	}
}

var _ = gen.Go

// forEachDecorated enumerates every decoration of every conflicting rule set of
// the cell classes (both rule orders) and calls f for this worker's share.
func forEachDecorated(w *Worker, base int64, f func(c *GCase)) {
	idx := base
	for _, cl := range c04CellClasses(w) {
		u := cl.Universe()
		terms := gram.TNames[:cl.T]
		cl.Enumerate(false, func(i int64, rules []int) bool {
			b0 := cl.SpecOf(u, rules)
			g := ref.FromSpec(b0)
			if !g.Usable() || g.LR0().Table().ConflictFree {
				return true
			}
			orders := []*gram.Spec{b0}
			if len(b0.Rules) > 1 {
				rev := &gram.Spec{Start: b0.Start, Tokens: b0.Tokens}
				for k := len(b0.Rules) - 1; k >= 0; k-- {
					rev.Rules = append(rev.Rules, b0.Rules[k])
				}
				orders = append(orders, rev)
			}
			for _, b := range orders {
				decorations(b, terms, func(s *gram.Spec) {
					if w.Mine(idx) {
						c := &GCase{Origin: cl.String() + "+prec", Spec: s}
						if idx%64 == 0 {
							w.Begin(idx, c)
						}
						f(c)
					}
					idx++
				})
			}
			return true
		})
	}
}

// c04RefSentences: for a grammar whose conflicts are all decided by the
// declarations, every sentence of the underlying grammar up to maxLen must be
// parsed by yaccgo's dense AND packed tables exactly as by the reference table
// (same verdict, same reductions): the grouping the declarations say, and a
// syntax error where %nonassoc forbids the chain.
func c04RefSentences(w *Worker, c *GCase, maxLen int) {
	g := ref.FromSpec(c.Spec)
	if !g.Usable() {
		return
	}
	t := g.LR0().Table()
	if t.ConflictFree || !t.AllJudged() {
		return
	}
	text := c.Spec.Render()
	res := ygo.Build(text, ygo.Options{Fuel: buildFuel})
	if !res.OK() {
		return
	}
	vw, err := ygo.NewView(res.V, g)
	if err != nil && (vw == nil || !vw.RulesDiffer) {
		return
	}
	// reductions are compared by the TEXT of the rule reduced (yaccgo's own rule list on its side, the
	// file's on the reference side), so that a rule list in another order than the file's is judged too:
	// "the rule that appears first in the grammar file" is about the file
	ownText := func(reds []int) []string {
		var out []string
		for _, r := range reds {
			if r <= 0 || r >= len(res.V.G.ProductoinRules) {
				out = append(out, fmt.Sprintf("rule %d", r))
				continue
			}
			pr := res.V.G.ProductoinRules[r]
			parts := []string{g.Names[vw.SymToRef[pr.LeftPart.ID]], "->"}
			for _, x := range pr.RighPart {
				parts = append(parts, g.Names[vw.SymToRef[x.ID]])
			}
			out = append(out, strings.Join(parts, " "))
		}
		return out
	}
	refText := func(reds []int) []string {
		var out []string
		for _, r := range reds {
			rr := g.Rules[r]
			parts := []string{g.Names[rr.L], "->"}
			for _, x := range rr.R {
				parts = append(parts, g.Names[x])
			}
			out = append(out, strings.Join(parts, " "))
		}
		return out
	}
	key := cellKey(c.Spec)
	refM := refMachine(g, t)
	machines := map[string]*lrm.Machine{"dense": lrm.Dense(vw.V)}
	if pm := lrm.Packed(vw.V); pm != nil {
		machines["packed"] = pm
	}
	e := ref.NewEarley(g)
	var terms []int
	for i, nt := range g.IsNT {
		if !nt {
			terms = append(terms, i)
		}
	}
	run := func(m *lrm.Machine, toks []int, own bool) (lrm.Outcome, []int) {
		cfg := lrm.Initial()
		if !own {
			cfg = lrm.Config{St: []int{0}, Sym: []int{g.EOF()}}
		}
		var reds []int
		pos := 0
		for {
			la := g.EOF()
			if pos < len(toks) {
				la = toks[pos]
			}
			if own {
				la = vw.RefToSym[la]
			}
			next, sr := m.Step(cfg, la, 4000)
			reds = append(reds, sr.Reds...)
			if sr.Out != lrm.Shifted {
				return sr.Out, reds
			}
			cfg = next
			pos++
		}
	}
	violated := false
	var rec func(chart []*ref.ESet, toks []int)
	rec = func(chart []*ref.ESet, toks []int) {
		if violated {
			return
		}
		if e.Accepts(chart) {
			w.Count("sentences_against_reference_table", 1)
			wantOut, wantReds := run(refM, toks, false)
			for name, m := range machines {
				gotOut, gotReds := run(m, toks, true)
				if gotOut != wantOut || (wantOut == lrm.Accepted && fmt.Sprint(ownText(gotReds)) != fmt.Sprint(refText(wantReds))) {
					violated = true
					in := tokString(g, toks, g.EOF())
					w.Violate("C04|grouping-differs-from-declarations|"+name+"|"+key, fmt.Sprintf("grammar [%s], input [%s]: a parser built to the declarations answers %s with reductions %v, yaccgo's %s table answers %s with reductions %v", key, in, wantOut, refText(wantReds), name, gotOut, ownText(gotReds)), c,
						map[string]interface{}{"grammar_text": text, "input": in, "table": name})
					return
				}
			}
		}
		if len(toks) >= maxLen {
			return
		}
		for _, tk := range terms {
			if e.CanShift(chart, tk) {
				nc, _ := e.Step(chart, tk)
				rec(nc, append(append([]int(nil), toks...), tk))
			}
		}
	}
	rec(e.Start(), nil)
}
