package main

import (
	"encoding/json"
	"fmt"
	"strings"

	"verifharness/gen"
	"verifharness/gram"
	"verifharness/ref"
	"verifharness/tsrun"
)

// C16: generated code is well-formed for every accepted grammar.

func init() {
	register(&CheckDef{
		ID:    "C16",
		Level: "exploration",
		Rule: "a shape list (every printable ASCII punctuation character and sample letters/digits as character-literal token, legal-but-awkward token names, tagged/untagged mixes, empty rules, rules without actions, %prec, explicit token numbers, tokens introduced only by %left or only by use) plus a fixed-stride selection of the bounded grammar classes, each with the MINIMAL prologue (package clause + import fmt / \"use strict\") and epilogue (a GetToken that returns end of input) the statement allows, x {go, -u, -o, -o -u, typescript}: whenever yaccgo generates without reporting an error the Go file must compile (go build -gcflags=-e of all packages in one module) and the TypeScript file must load (type-erased, node vm); " +
			"non-trivial = every generated file; distinct = distinct (specification, variant)",
		Assumptions: []string{
			"domain: token names are identifiers that are neither Go/TypeScript reserved or predeclared words nor names declared by the generated skeleton; actions mention only tagged symbols",
			"TypeScript: no tsc in the image - the file is type-erased by harness/tsrun (logging every deleted span) and loaded by Node 20; type correctness is not checked",
		},
		Work: func(w *Worker) { c16Work(w) },
		Replay: func(w *Worker, raw json.RawMessage) {
			var c c16Case
			if json.Unmarshal(raw, &c) == nil && c.Spec != nil {
				c16Batch(w, []*c16Case{&c}, "replay")
			}
		},
	})
}

type c16Case struct {
	Origin string     `json:"origin"`
	Spec   *gram.Spec `json:"spec"`
}

func c16Shapes() []*c16Case {
	var out []*c16Case
	add := func(name string, s *gram.Spec) { out = append(out, &c16Case{Origin: "shape:" + name, Spec: s}) }
	// every punctuation character as a literal token, in a rule with an action that uses it
	for ch := byte(33); ch < 127; ch++ {
		isAlnum := (ch >= '0' && ch <= '9') || (ch >= 'a' && ch <= 'z') || (ch >= 'A' && ch <= 'Z')
		if isAlnum && ch != 'a' && ch != 'Z' && ch != '7' {
			continue
		}
		if ch == '\\' {
			continue // the lexer has no way to write a backslash literal
		}
		lit := "'" + string(ch) + "'"
		if ch == '\'' {
			lit = `'\''`
		}
		mk := func(mid string) *gram.Spec {
			return &gram.Spec{Start: "S", Tokens: []gram.TokDecl{{Name: "TA"}}, Rules: []gram.Rule{{L: "S", R: []string{"S", lit, mid}}, {L: "S", R: []string{"TA"}}}}
		}
		s := mk("TA")
		s.Union = " v int "
		s.HasUnion = true
		s.Tokens = []gram.TokDecl{{Name: "TA", Tag: "v"}, {Name: lit}}
		s.Types = []gram.TypeDecl{{Tag: "v", Names: []string{"S"}}}
		s.Rules[0].Action = " $$ = $1 + $3 "
		s.Rules[1].Action = " $$ = $1 "
		add(fmt.Sprintf("literal-%d", ch), s)
		// the literal declared with a value tag on its %token line, its value read by the action
		st := mk("TA")
		st.Union = " v int "
		st.HasUnion = true
		st.Tokens = []gram.TokDecl{{Name: "TA", Tag: "v"}, {Name: lit, Tag: "v"}}
		st.Types = []gram.TypeDecl{{Tag: "v", Names: []string{"S"}}}
		st.Rules[0].Action = " $$ = $1 + $2 + $3 "
		st.Rules[1].Action = " $$ = $1 "
		add(fmt.Sprintf("literal-tagged-%d", ch), st)
		// and only used in a rule, never declared
		s2 := mk("TA")
		add(fmt.Sprintf("literal-undeclared-%d", ch), s2)
		// and with precedence
		s3 := mk("S")
		s3.Prec = []gram.PrecLevel{{Assoc: "left", Toks: []string{lit}}}
		add(fmt.Sprintf("literal-left-%d", ch), s3)
	}
	for _, n := range []string{"a", "s", "c", "_x", "T1", "val", "input", "look", "i", "x9", "NUM", "ID_2", "tok", "conv", "model", "state", "action", "sym"} {
		s := gram.Parse("S", []string{n}, "S: S "+n+" | "+n)
		add("token-name-"+n, s)
	}
	// names with one character of each Unicode class that comes near an identifier: letters and decimal
	// digits are accepted by yaccgo and by both target languages; if yaccgo lets any of the others
	// through, the constant it emits for the token must still be an identifier of the target language
	for _, n := range []string{"mñ", "Tπ", "m٢", "m²", "CO₂", "x½", "n①", "RⅧ", "x‿y", "e\u0301x", "T·b", "Tー"} {
		s := gram.Parse("S", []string{n}, "S: S "+n+" | "+n)
		add("token-name-unicode-"+n, s)
		s2 := gram.Parse(n, []string{"TA", "TB"}, n+": "+n+" TA | TB")
		add("nonterminal-name-unicode-"+n, s2)
	}
	// long names made of multi-byte letters, at every byte alignment (whatever is cut, padded or wrapped by
	// bytes rather than by characters leaves broken UTF-8 in the file): two-byte (Cyrillic), three-byte (CJK)
	// and four-byte (Gothic) letters behind 0 to 3 ASCII letters
	for _, body := range []string{"числочислочислочисло", "識別子識別子識別子識別子", "𐌰𐌱𐌲𐌳𐌴𐌵𐌶𐌷"} {
		for pre := 0; pre < 4; pre++ {
			n := "Tabc"[:pre] + body
			if pre == 0 {
				n = body
			}
			s := gram.Parse("S", []string{n}, "S: S "+n+" | "+n)
			add("token-name-long-unicode-"+n, s)
			nt := "n" + n
			s2 := gram.Parse(nt, []string{"TA", "TB"}, nt+": "+nt+" TA | TB")
			add("nonterminal-name-long-unicode-"+nt, s2)
		}
	}
	// character literals that are white space or beyond ASCII
	for _, ch := range []string{" ", "\t", "\n", "é", "€", "\u00a0"} {
		lit := "'" + ch + "'"
		ws := &gram.Spec{Start: "S", Tokens: []gram.TokDecl{{Name: "TA"}}, Rules: []gram.Rule{{L: "S", R: []string{"S", lit, "TA"}}, {L: "S", R: []string{"TA"}}}}
		add(fmt.Sprintf("literal-special-%q", ch), ws)
	}
	for _, n := range []string{"start", "s", "a", "E", "e1", "_n", "Expr_list", "S"} {
		s := gram.Parse(n, []string{"TA", "TB"}, n+": "+n+" TA | TB")
		add("nonterminal-name-"+n, s)
	}
	// tagged / untagged mixes
	mix := gram.Parse("S", nil, "S: A TB S | A ; A: TA | ")
	mix.Union = " v int \n w string "
	mix.HasUnion = true
	mix.Tokens = []gram.TokDecl{{Name: "TA", Tag: "v"}, {Name: "TB"}}
	mix.Types = []gram.TypeDecl{{Tag: "w", Names: []string{"S"}}}
	mix.Rules[0].Action = " $$ = $3 "
	mix.Rules[2].Action = " _ = $1 "
	add("tag-mix", mix)
	// members of the value union whose types cannot be compared or copied bit by bit in Go: slice, map,
	// function, interface, pointer, array of slices (the driver must treat the value as an opaque struct)
	for _, m := range [][2]string{{"slice", "[]int"}, {"map", "map[string]int"}, {"func", "func() int"}, {"interface", "interface{}"}, {"pointer", "*int"}, {"array-of-slices", "[2][]string"}, {"chan", "chan int"}} {
		name, goT := m[0], m[1]
		um := gram.Parse("S", nil, "S: S TA | TA")
		um.Union = " v int \n x " + goT + " "
		um.HasUnion = true
		um.Tokens = []gram.TokDecl{{Name: "TA", Tag: "x"}}
		um.Types = []gram.TypeDecl{{Tag: "v", Names: []string{"S"}}}
		um.Rules[0].Action = " $$ = $1 + 1; _ = $2 "
		um.Rules[1].Action = " $$ = 1; _ = $1 "
		add("union-member-"+name, um)
	}
	// two %union blocks, each on one line (the later one is the one yaccgo uses; whatever it does with
	// the earlier one, the file must compile)
	two := gram.Parse("S", nil, "S: S TA | TA")
	two.Union = " w string "
	two.HasUnion = true
	two.RawDecls = []string{"%union { v int }"}
	two.Tokens = []gram.TokDecl{{Name: "TA", Tag: "v"}}
	two.Types = []gram.TypeDecl{{Tag: "v", Names: []string{"S"}}}
	two.Rules[0].Action = " $$ = $1 + $2 "
	two.Rules[1].Action = " $$ = $1 "
	add("two-union-blocks", two)
	num := gram.Parse("S", nil, "S: TA TB TC | ")
	num.Tokens = []gram.TokDecl{{Name: "TA", Num: 300}, {Name: "TB"}, {Name: "TC", Num: 2}}
	add("explicit-numbers", num)
	only := gram.Parse("S", nil, "S: S TA S | TB %prec TA | 'x'").WithPrec("left TA", "right TB")
	only.Tokens = []gram.TokDecl{{Name: "TA", NoTokenLine: true}, {Name: "TB", NoTokenLine: true}}
	add("tokens-only-via-prec", only)
	twice := gram.Parse("S", nil, "S: TA")
	twice.Union = " v int "
	twice.HasUnion = true
	twice.Tokens = []gram.TokDecl{{Name: "TA", Tag: "v"}, {Name: "TA", Num: 100}}
	add("token-declared-twice", twice)
	twice2 := gram.Parse("S", nil, "S: TA TB TC TD")
	twice2.Union = " v int "
	twice2.HasUnion = true
	twice2.Tokens = []gram.TokDecl{{Name: "TA", Tag: "v"}, {Name: "TB"}, {Name: "TC"}, {Name: "TD"}, {Name: "TA", Num: 4}}
	add("token-renumbered-into-automatic-range", twice2)
	// explicit numbers that are not distinct: whatever yaccgo makes of them, a file it writes must compile
	dup := gram.Parse("S", nil, "S: TA TB")
	dup.Tokens = []gram.TokDecl{{Name: "TA", Num: 300}, {Name: "TB", Num: 300}}
	add("two-tokens-one-number", dup)
	dupLit := &gram.Spec{Start: "S", Tokens: []gram.TokDecl{{Name: "TP", Num: 43}}, Rules: []gram.Rule{{L: "S", R: []string{"TP", "'+'"}}}}
	add("token-number-equals-literal-code", dupLit)
	dupAuto := gram.Parse("S", nil, "S: TA TB TC")
	dupAuto.Tokens = []gram.TokDecl{{Name: "TA"}, {Name: "TB"}, {Name: "TC", Num: 1}}
	add("token-number-one", dupAuto)
	end := gram.Parse("S", nil, "S: TA")
	end.Tokens = []gram.TokDecl{{Name: "TA"}, {Name: "END", Num: -1}}
	add("token-numbered-minus-one", end)
	for ai, act := range []string{" $$ = $1 /* a block comment */ ", "\n\t// a line comment\n\t$$ = $1\n", " $$ = $1 * 2 / 1 /* c1 */ /* c2 */ ", " s := \"*/ in a string\"; _ = s; $$ = $1 "} {
		cs := &gram.Spec{Start: "S", HasUnion: true, Union: " v int ", Tokens: []gram.TokDecl{{Name: "TA", Tag: "v"}}, Types: []gram.TypeDecl{{Tag: "v", Names: []string{"S"}}}}
		cs.Rules = []gram.Rule{{L: "S", R: []string{"S", "TA"}, Action: act}, {L: "S", R: []string{"TA"}, Action: " $$ = $1 "}}
		add(fmt.Sprintf("comment-in-action-%d", ai), cs)
	}
	// string aliases with text that means something to the target languages
	for ai, al := range []string{"*/", "/*", "//", "`", "${x}", "%d", "a b", "<T>"} {
		as := gram.Parse("S", nil, "S: S TA TB | TA")
		as.Tokens = []gram.TokDecl{{Name: "TA", Alias: al}, {Name: "TB", Num: 300, Alias: al + al}}
		add(fmt.Sprintf("alias-%d", ai), as)
	}
	// directives yaccgo does not know (bison's %expect, %nterm, %empty ...): refusing them is fine, but a file
	// that is written must compile
	for _, dir := range []string{"%expect 1", "%nterm TX", "%define api.pure", "%foo"} {
		us := gram.Parse("S", []string{"TA"}, "S: S TA | TA")
		us.RawDecls = []string{dir}
		add("unknown-directive-"+dir, us)
	}
	// $n mentioned only inside a comment or a string of the action (the rewriting of $n is textual)
	for ai, act := range []string{"\n\t// $1 and $2 were counted already\n\t$$ = 0\n", " s := \"$1 and $2\"; _ = s; $$ = 0 ", " /* $2 */ $$ = 0 ", " $$ = 0 "} {
		cs := &gram.Spec{Start: "S", HasUnion: true, Union: " v int ", Tokens: []gram.TokDecl{{Name: "TA", Tag: "v"}}, Types: []gram.TypeDecl{{Tag: "v", Names: []string{"S"}}}}
		cs.Rules = []gram.Rule{{L: "S", R: []string{"S", "TA"}, Action: act}, {L: "S", R: []string{"TA"}, Action: " $$ = $1 "}}
		add(fmt.Sprintf("dollar-only-in-quoted-text-%d", ai), cs)
	}
	for pi, more := range [][]string{{"var extraA int"}, {"var extraA int", "var extraB = extraA"}, {"var extraA int\nvar extraB int", "var extraC int"}} {
		ps := gram.Parse("S", []string{"TA"}, "S: S TA | TA")
		ps.MorePrologue = more
		add(fmt.Sprintf("several-prologue-blocks-%d", pi), ps)
	}
	long := &gram.Spec{Start: "S", HasUnion: true, Union: " v int ", Tokens: []gram.TokDecl{{Name: "TA", Tag: "v"}}, Types: []gram.TypeDecl{{Tag: "v", Names: []string{"S"}}}}
	lr := gram.Rule{L: "S", Action: " $$ = $1 + $9 + $10 + $11 + $12 "}
	for k := 0; k < 12; k++ {
		lr.R = append(lr.R, "TA")
	}
	long.Rules = []gram.Rule{lr, {L: "S", R: []string{"TA"}, Action: " $$ = $1 "}}
	add("dollar-10-to-12", long)
	for _, n := range gram.Families() {
		add("family-"+n.Name, n.Spec)
	}
	return out
}

func c16Corpus(w *Worker) []*c16Case {
	out := c16Shapes()
	stride := int64(41)
	if w.Thorough() {
		stride = 97
	}
	for _, cl := range classesFor(w) {
		u := cl.Universe()
		cl.Enumerate(false, func(i int64, rules []int) bool {
			if i%stride == 5 {
				s := cl.SpecOf(u, rules)
				if ref.FromSpec(s).Usable() {
					out = append(out, &c16Case{Origin: fmt.Sprintf("%s#%d", cl, i), Spec: s})
				}
			}
			return true
		})
	}
	return out
}

func c16Work(w *Worker) {
	corpus := c16Corpus(w)
	if w.Shard == 0 {
		w.Count("corpus_specifications", int64(len(corpus)))
	}
	var mine []*c16Case
	for i, c := range corpus {
		if w.Mine(int64(i)) {
			mine = append(mine, c)
		}
	}
	const per = 80
	for lo := 0; lo < len(mine); lo += per {
		hi := lo + per
		if hi > len(mine) {
			hi = len(mine)
		}
		w.Begin(int64(lo), map[string]interface{}{"origin": "c16-batch", "first": mine[lo].Origin})
		c16Batch(w, mine[lo:hi], fmt.Sprintf("C16-%d-%d", w.Shard, lo))
	}
}

func c16Source(s *gram.Spec, variant, pkg string) string {
	c := *s
	if variant == gen.TS {
		c.Prologue = "\"use strict\";\n"
		if c.HasUnion {
			// the union body is target-language text: translate the two field shapes used by the shape list
			c.Union = strings.NewReplacer(" v int ", " v :number; ", " w string ", " w :string; ").Replace(c.Union)
			if len(c.RawDecls) > 0 {
				var rd []string
				for _, l := range c.RawDecls {
					rd = append(rd, strings.ReplaceAll(l, "{ v int }", "{ v :number; }"))
				}
				c.RawDecls = rd
			}
			if i := strings.Index(c.Union, "\n x "); i >= 0 {
				c.Union = c.Union[:i] + "\n x :any; "
			}
		}
		if len(c.MorePrologue) > 0 {
			// the blocks are target-language text
			var mp []string
			for _, p := range c.MorePrologue {
				mp = append(mp, strings.ReplaceAll(p, " int", " = 0;"))
			}
			c.MorePrologue = mp
		}
		c.Epilogue = "\nfunction GetToken(input :string, model:{ValType :ValType, pos :number}) :number {\n\treturn -1\n}\n"
		for i := range c.Rules {
			c.Rules = append([]gram.Rule(nil), c.Rules...)
			if c.Rules[i].Action == " _ = $1 " {
				c.Rules[i].Action = " let unused = $1 "
			}
			if strings.HasPrefix(c.Rules[i].Action, " s := ") {
				c.Rules[i].Action = " let s = \"*/ in a string\"; $$ = $1 "
			}
		}
	} else {
		c.Prologue = "package " + pkg + "\n\nimport \"fmt\"\n"
		c.Epilogue = "\nfunc GetToken(input string, valTy *ValType, pos *int) int {\n\treturn -1\n}\n"
	}
	c.HasEpilogue = true
	return c.Render()
}

func c16Batch(w *Worker, cases []*c16Case, name string) {
	b, err := gen.NewBatch(w.Scratch, name)
	if err != nil {
		w.Note("INTERNAL: " + err.Error())
		return
	}
	defer b.Remove()
	type ent struct {
		c  *c16Case
		it *gen.Item
	}
	var ents []ent
	var tsJobs []tsrun.Job
	byPkg := map[string]*ent{}
	for i, c := range cases {
		for vi, v := range gen.AllVariants {
			pkg := fmt.Sprintf("q%d_%d", i, vi)
			it := b.AddText(pkg, v, c16Source(c.Spec, v, pkg))
			ents = append(ents, ent{c, it})
		}
	}
	for i := range ents {
		byPkg[ents[i].it.Pkg] = &ents[i]
	}
	if err := b.BuildAll(); err != nil {
		w.Note("INTERNAL: " + err.Error())
		return
	}
	for _, e := range ents {
		if e.it.Variant == gen.TS && e.it.GenDiag == "" {
			js, deleted, err := tsrun.EraseFile(e.it.File)
			if err != nil {
				w.Note("INTERNAL: " + err.Error())
				continue
			}
			w.Count("ts_type_spans_erased", int64(len(deleted)))
			tsJobs = append(tsJobs, tsrun.Job{Pkg: e.it.Pkg, File: js, LoadOnly: true})
		}
	}
	if len(tsJobs) > 0 {
		err := tsrun.Run(b.Dir, tsJobs, func(o *tsrun.Out) {
			if o.Kind == "load" && o.Err != "" {
				byPkg[o.Pkg].it.BuildErr = o.Err
			}
		})
		if err != nil {
			w.Note("INTERNAL: " + err.Error())
			return
		}
	}
	refused := map[*c16Case]int{}
	for _, e := range ents {
		w.Count("evaluations", 1)
		key := e.c.Origin + " / " + e.it.Variant + " / " + e.c.Spec.Key()
		if e.it.GenDiag != "" {
			w.Count("generator_refused", 1)
			refused[e.c]++
			w.SetAdd("generator_refused", e.c.Origin+": "+e.it.GenDiag)
			continue
		}
		w.Distinct(key)
		w.Count("files_generated", 1)
		if e.it.BuildErr != "" {
			what := "does not compile"
			if e.it.Variant == gen.TS {
				what = "does not load"
			}
			w.Violate("C16|ill-formed|"+e.it.Variant+"|"+e.c.Origin+"|"+e.c.Spec.Key(), fmt.Sprintf("the generated %s file for [%s] (%s) %s: %s", e.it.Variant, e.c.Spec.Key(), e.c.Origin, what, e.it.BuildErr),
				e.c, map[string]interface{}{"grammar_text": e.it.Text, "variant": e.it.Variant, "error": e.it.BuildErr})
		}
	}
	if len(ents) > 0 {
		w.Sample(map[string]interface{}{"specification": ents[0].c.Spec.Key(), "origin": ents[0].c.Origin, "variants": gen.AllVariants})
	}
}
