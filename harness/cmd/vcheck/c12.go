package main

import (
	"encoding/json"
	"fmt"
	"os"
	"path/filepath"
	"regexp"
	"sort"
	"strings"

	"verifharness/gram"
	"verifharness/ref"
	"verifharness/ygo"
)

// C12: unusable grammars are rejected, usable ones are not.

func init() {
	register(&CheckDef{
		ID:    "C12",
		Level: "exploration",
		Rule: "every rule set of the UNFILTERED bounded classes (undefined, unproductive, unreachable nonterminals and a start symbol without rules included) plus families goes through the real ParseAndBuild; " +
			"refused <=> the reference finds an undefined symbol or an unproductive nonterminal; when refused for unproductivity the printed names must be the reference's set; " +
			"a case is non-trivial when the reference classifies it as unusable (the interesting half) or it has >= 2 nonterminals; distinct = distinct rule sets",
		Assumptions: []string{
			"reference productivity / definedness fixpoints in ref/grammar.go",
			"a refusal is an error return or a panic whose value is not a runtime.Error; fuel exhaustion (20M loop iterations) counts as 'not processed'",
		},
		Work: func(w *Worker) {
			var idx int64 = 1 << 41
			for _, n := range c12Families() {
				if w.Mine(idx) {
					c := &GCase{Origin: "family:" + n.Name, Spec: n.Spec}
					w.Begin(idx, c)
					c12Eval(w, c)
				}
				idx++
			}
			forEachGrammar(w, classesFor(w), true, true, func(idx int64, c *GCase) { c12Eval(w, c) })
		},
		Replay: func(w *Worker, raw json.RawMessage) {
			var c GCase
			if json.Unmarshal(raw, &c) == nil && c.Spec != nil {
				c12Eval(w, &c)
			}
		},
	})
}

func c12Families() []gram.Named {
	abc := []string{"TA", "TB", "TC"}
	typed := func(s *gram.Spec, names ...string) *gram.Spec {
		s.Union = " v int "
		s.HasUnion = true
		s.Types = append(s.Types, gram.TypeDecl{Tag: "v", Names: names})
		return s
	}
	return []gram.Named{
		{"mutual-unproductive", gram.Parse("S", abc, "S: A | TA ; A: B TA ; B: A TB")},
		{"unproductive-start", gram.Parse("S", abc, "S: S TA")},
		{"unproductive-unreachable", gram.Parse("S", abc, "S: TA ; A: A TB")},
		{"unproductive-deep", gram.Parse("S", abc, "S: A ; A: B ; B: C ; C: C TA")},
		{"nullable-saves", gram.Parse("S", abc, "S: A ; A: B A | ; B: TA")},
		{"productive-through-epsilon", gram.Parse("S", abc, "S: A B ; A: ; B: A A")},
		{"undefined-deep", gram.Parse("S", abc, "S: A ; A: TA X")},
		{"undefined-only-in-unreachable", gram.Parse("S", abc, "S: TA ; A: X")},
		{"type-ruleless", typed(gram.Parse("S", abc, "S: TA"), "X")},
		{"type-ruleless-used", typed(gram.Parse("S", abc, "S: TA X"), "X")},
		{"type-with-rules", typed(gram.Parse("S", abc, "S: TA X ; X: TB"), "X")},
		{"start-undefined", gram.Parse("Z", abc, "S: TA")},
		{"one-of-two-alternatives-unproductive", gram.Parse("S", abc, "S: A | TB ; A: A TA")},
		{"default-start-symbol", gram.Parse("", abc, "start: TA S ; S: TB | S TB")},
		{"default-start-symbol-recursive", gram.Parse("", abc, "start: start TA | TB")},
		// %prec naming something that is declared nowhere is a use of an undefined symbol; naming a token
		// without precedence, or a character literal that occurs nowhere else, is not
		{"prec-names-an-undeclared-name", func() *gram.Spec {
			s := gram.Parse("E", []string{"TA"}, "E: E '-' E | '-' E %prec UMINUS | TA")
			s.Prec = []gram.PrecLevel{{Assoc: "left", Toks: []string{"'-'"}}}
			return s
		}()},
		{"prec-names-a-token-without-precedence", func() *gram.Spec {
			s := gram.Parse("E", []string{"TA", "TB"}, "E: E '-' E | '-' E %prec TB | TA")
			s.Prec = []gram.PrecLevel{{Assoc: "left", Toks: []string{"'-'"}}}
			return s
		}()},
		{"prec-names-a-literal-used-nowhere-else", func() *gram.Spec {
			s := gram.Parse("E", []string{"TA"}, "E: E '-' E | '-' E %prec '!' | TA")
			s.Prec = []gram.PrecLevel{{Assoc: "left", Toks: []string{"'-'"}}}
			return s
		}()},
		// a quoted string that is the alias of no token is an undefined symbol, too (in the middle and at the end of a rule)
		{"undefined-string-in-the-middle", gram.Parse("S", abc, `S: TA "=>" TB`)},
		{"undefined-string-at-the-end", gram.Parse("S", abc, `S: TA | S TB ","`)},
		// nonterminals spelled like keywords of the target languages (their names appear in comments and texts only)
		{"nonterminals-named-like-keywords", typed(gram.Parse("unit", abc, "unit: import type | unit type ; import: TA ; type: TB | type TC ; func: TA ; var: TB"), "unit")},
		{"all-terminal-chain", gram.Parse("S", abc, "S: A TA ; A: B TB ; B: TC")},
		// a token declared first without a number and numbered by a later line (the idiom of the shipped
		// examples), next to several automatically numbered tokens: the automatic numbers must keep clear of it
		{"numbered-by-a-later-line", func() *gram.Spec {
			s := gram.Parse("S", nil, "S: TN TA TB TC TD TE")
			s.Union = " v int "
			s.HasUnion = true
			s.Tokens = []gram.TokDecl{{Name: "TN", Tag: "v"}, {Name: "TA"}, {Name: "TB"}, {Name: "TC"}, {Name: "TD"}, {Name: "TE"}}
			s.LateTokens = []gram.TokDecl{{Name: "TN", Num: 5}}
			return s
		}()},
		// well-formed grammars with large automata below the limit of 2000 states
		{"states-1557", gram.Trie([]string{"TA", "TB", "TC", "TD", "TE", "TF"}, 4)},
		{"states-1999", c12StatesExactly(1999)},
	}
}

// c12StatesExactly builds a conflict-free grammar whose LR(0) automaton has
// exactly n states: the trie of all 4-token strings over six terminals plus
// one alternative that is a chain of a seventh terminal (one state per symbol).
func c12StatesExactly(n int) *gram.Spec {
	mk := func(chain int) *gram.Spec {
		s := gram.Trie([]string{"TA", "TB", "TC", "TD", "TE", "TF"}, 4)
		s.Tokens = append(s.Tokens, gram.TokDecl{Name: "TG"})
		r := gram.Rule{L: "S"}
		for i := 0; i < chain; i++ {
			r.R = append(r.R, "TG")
		}
		s.Rules = append(s.Rules, r)
		return s
	}
	base := len(ref.FromSpec(mk(1)).LR0().States) - 1
	return mk(n - base)
}

func c12Eval(w *Worker, c *GCase) {
	w.Count("evaluations", 1)
	g := ref.FromSpec(c.Spec)
	usable := g.Usable()
	key := c.Spec.Key()
	if c.Spec.Start != "S" || len(c.Spec.Types) > 0 {
		key = "start=" + c.Spec.Start + " types=" + fmt.Sprint(c.Spec.Types) + " " + key
	}
	text := c.Spec.Render()
	fuel := int64(buildFuel)
	if strings.HasPrefix(c.Origin, "family:states-") {
		fuel = 400_000_000 // large automata legitimately need more loop iterations
	}
	res := ygo.Build(text, ygo.Options{Fuel: fuel})
	// the same grammar written the other common way: terminals as character literals that are
	// never declared, no ';' after the rule groups. The verdict must be the same.
	if alt := c12Alt(c.Spec); alt != "" {
		res2 := ygo.Build(alt, ygo.Options{Fuel: fuel})
		w.Count("alternative_renderings", 1)
		if res2.OK() != res.OK() || res2.Fuel != res.Fuel {
			w.Violate("C12|verdict-depends-on-rendering|"+key, fmt.Sprintf("grammar [%s]: written with %%token names and ';' yaccgo answers %q, written with undeclared character literals and without ';' it answers %q", key, okOr(res), okOr(res2)), c,
				map[string]interface{}{"grammar_text": text, "alternative_text": alt})
			return
		}
	}
	if !usable || len(c.Spec.Nonterminals()) >= 2 {
		w.Distinct(key)
	}
	w.SampleEvery(w.Out.Counters["evaluations"], 7919, func() interface{} {
		return map[string]interface{}{"grammar": key, "reference_usable": usable, "yaccgo": res.Diag()}
	})
	detail := map[string]interface{}{"grammar_text": text, "yaccgo_diag": res.Diag(), "stdout": tailStr(res.Stdout, 600),
		"reference_undefined": g.Undefined, "reference_ruleless": g.NoRuleNT}
	if usable {
		w.Count("usable", 1)
		if !res.OK() {
			kind := "usable-grammar-refused"
			if res.Fuel {
				kind = "usable-grammar-not-terminating"
			}
			w.Violate("C12|"+kind+"|"+key, fmt.Sprintf("%s: grammar [%s] is well-formed (all symbols defined, all nonterminals productive) but yaccgo answers: %s", kind, key, res.Diag()), c, detail)
			return
		}
		// the generators must process a usable family grammar, too (each has checks of its own behind the
		// common front end)
		if strings.HasPrefix(c.Origin, "family:") && !strings.HasPrefix(c.Origin, "family:states-") && c.Spec.HasUnion {
			for _, lang := range []string{"go", "typescript"} {
				out := filepath.Join(w.Scratch, fmt.Sprintf("c12-%d.out", w.Shard))
				os.Remove(out)
				gr := ygo.Generate(lang, text, out, ygo.Options{Fuel: fuel})
				os.Remove(out)
				w.Count("generator_acceptances_checked", 1)
				if gr.Err != nil || gr.Panic != "" {
					w.Violate("C12|usable-grammar-refused-by-generator|"+lang+"|"+key, fmt.Sprintf("usable-grammar-refused: grammar [%s] is well-formed and ParseAndBuild accepts it, but `generate %s` refuses it: %v %s", key, lang, gr.Err, gr.Panic), c, detail)
					return
				}
			}
		}
		return
	}
	w.Count("unusable", 1)
	unprod := []string(nil)
	if len(g.Undefined) == 0 && len(g.NoRuleNT) == 0 {
		unprod = g.Unproductive()
		w.Count("unusable_unproductive_only", 1)
	} else {
		w.Count("unusable_undefined_symbol", 1)
	}
	detail["reference_unproductive"] = unprod
	if res.OK() {
		w.Violate("C12|unusable-grammar-accepted|"+key, fmt.Sprintf("grammar [%s] is unusable (undefined %v, ruleless %v, unproductive %v) but yaccgo built tables for it", key, g.Undefined, g.NoRuleNT, unprod), c, detail)
		return
	}
	if res.Fuel {
		w.Violate("C12|unusable-grammar-not-terminating|"+key, fmt.Sprintf("grammar [%s] is unusable but yaccgo does not terminate on it", key), c, detail)
		return
	}
	// the two generators must refuse it as well (they run the same front end, but each has its own
	// error path to the caller)
	for _, lang := range []string{"go", "typescript"} {
		out := filepath.Join(w.Scratch, fmt.Sprintf("c12-%d.out", w.Shard))
		os.Remove(out)
		gr := ygo.Generate(lang, text, out, ygo.Options{Fuel: fuel})
		_, statErr := os.Stat(out)
		os.Remove(out)
		w.Count("generator_refusals_checked", 1)
		if gr.Err == nil && gr.Panic == "" && !gr.Fuel {
			w.Violate("C12|unusable-grammar-accepted-by-generator|"+lang+"|"+key, fmt.Sprintf("grammar [%s] is unusable (undefined %v, ruleless %v, unproductive %v): ParseAndBuild refuses it, but `generate %s` returns without an error (output file written: %v)", key, g.Undefined, g.NoRuleNT, unprod, lang, statErr == nil), c, detail)
			return
		}
	}
	if res.RuntimeErr || res.Diag() == "" {
		w.Violate("C12|refused-without-reason|"+key, fmt.Sprintf("grammar [%s] is refused by a crash, not a diagnostic: %s", key, res.Diag()), c, detail)
		return
	}
	if unprod != nil {
		// the names printed must be exactly the unproductive nonterminals
		got := parseInfLoop(res.Stdout)
		if got == nil {
			// another wording than today's: it is enough that every unproductive nonterminal is named somewhere in the diagnostic output
			all := res.Stdout + " " + res.Diag()
			named := true
			for _, u := range unprod {
				if !regexp.MustCompile(`(^|[^A-Za-z0-9_])` + regexp.QuoteMeta(u) + `([^A-Za-z0-9_]|$)`).MatchString(all) {
					named = false
				}
			}
			if named {
				w.Count("unproductive_named_in_other_wording", 1)
				return
			}
			w.Violate("C12|unproductive-not-named|"+key, fmt.Sprintf("grammar [%s]: refused (%s) without naming the unproductive nonterminals %v", key, res.Diag(), unprod), c, detail)
			return
		}
		// "start" is yaccgo's own augmented start symbol; naming it is truthful
		// exactly when the user's start symbol is unproductive
		var user []string
		for _, n := range got {
			if n == "start" && c.Spec.Start != "start" {
				startUnprod := false
				for _, u := range unprod {
					if u == c.Spec.Start {
						startUnprod = true
					}
				}
				if startUnprod {
					continue
				}
			}
			user = append(user, n)
		}
		got = user
		sort.Strings(got)
		if strings.Join(got, ",") != strings.Join(unprod, ",") {
			w.Violate("C12|unproductive-names-wrong|"+key, fmt.Sprintf("grammar [%s]: yaccgo names %v as non-terminating, the unproductive nonterminals are %v", key, got, unprod), c, detail)
		}
	}
}

func parseInfLoop(out string) []string {
	i := strings.Index(out, "Error:\n")
	if i < 0 {
		return nil
	}
	rest := out[i+len("Error:\n"):]
	j := strings.Index(rest, " have Infinite recursion loop")
	if j < 0 {
		return nil
	}
	return strings.Fields(rest[:j])
}

func tailStr(s string, n int) string {
	if len(s) > n {
		return "..." + s[len(s)-n:]
	}
	return s
}

func okOr(r *ygo.Result) string {
	if r.OK() {
		return "accepted"
	}
	return r.Diag()
}

// c12Alt renders a class-style specification (terminals TA..TD) with the
// terminals as undeclared character literals and without ';' terminators.
func c12Alt(s *gram.Spec) string {
	lit := map[string]string{"TA": "'a'", "TB": "'b'", "TC": "'c'", "TD": "'d'"}
	n := &gram.Spec{Start: s.Start, Types: s.Types, Union: s.Union, HasUnion: s.HasUnion}
	if len(s.Prec) > 0 {
		return ""
	}
	for _, r := range s.Rules {
		nr := gram.Rule{L: r.L}
		for _, x := range r.R {
			if l, ok := lit[x]; ok {
				x = l
			}
			nr.R = append(nr.R, x)
		}
		n.Rules = append(n.Rules, nr)
	}
	for _, t := range s.Tokens {
		if _, ok := lit[t.Name]; !ok {
			return "" // other token kinds: keep the canonical rendering only
		}
	}
	return gram.RenderAtoms(n.Atoms(gram.LayoutOpts{NoSemicolon: true}), nil)
}
