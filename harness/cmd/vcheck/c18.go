package main

import (
	"encoding/json"
	"fmt"
	"sort"
	"strings"

	"github.com/awalterschulze/gographviz"

	"verifharness/gram"
	"verifharness/ref"
	"verifharness/ygo"
)

// C18: debug listing and automaton diagram describe the generated parser.

func init() {
	register(&CheckDef{
		ID:    "C18",
		Level: "exploration",
		Rule: "every usable grammar of the bounded classes plus families (literal tokens included): the gographviz graph returned by DrawGrammar(GTable) must have one node state_i per table row with exactly the items of state i (text rebuilt from the SPECIFICATION's rule text), an edge i->j labelled X exactly when GTable[i][X] = j is a shift/goto, an annotation `X: reduce rule at r` exactly when GTable[i][X] = -r, the fill attributes exactly on rows holding the accept code, and its DOT text must parse; the `debug` listing must show, per state number, exactly the items and GOTO lines of LR0Closure and exactly the reduce lookaheads yaccgo computed, and must agree with the table: every table action appears in the listing, and a listed action missing from the table must sit in a cell where the reference finds a conflict that was resolved; " +
			"non-trivial = usable grammar whose graph and listing were compared; distinct = distinct rule sets",
		Assumptions: []string{
			"the external `dot` renderer is not installed: the graph object and its DOT text are checked, not the PNG",
			"listing line formats as printed by Grammar.ShowCloure and LALR1.ShowLookAheadSet (whitespace-normalised)",
		},
		Work: func(w *Worker) {
			forEachGrammar(w, classesFor(w), false, true, func(idx int64, c *GCase) { c18Eval(w, c) })
		},
		Replay: func(w *Worker, raw json.RawMessage) {
			var c GCase
			if json.Unmarshal(raw, &c) == nil && c.Spec != nil {
				c18Eval(w, &c)
			}
		},
	})
}

func dotName(n string) string {
	if n == "$accept" {
		n = "start"
	}
	if gram.IsLit(n) {
		n = "'" + string(gram.LitRune(n)) + "' "
	}
	for _, c := range []string{"<", ">", "{", "}", "|", "\""} {
		n = strings.ReplaceAll(n, c, "\\"+c)
	}
	return n
}

// recordFields parses a Graphviz record label (without the surrounding
// quotes) and returns, for each top-level field, the number of sub-fields if
// it is a {...} group (0 for a plain field). ok=false: unbalanced.
func recordFields(label string) (fields []int, ok bool) {
	depth := 0
	sub := 0
	group := false
	flush := func() {
		if group {
			fields = append(fields, sub)
		} else {
			fields = append(fields, 0)
		}
		sub, group = 0, false
	}
	for i := 0; i < len(label); i++ {
		switch label[i] {
		case '\\':
			i++
		case '{':
			depth++
			if depth == 1 {
				group = true
				sub = 1
			}
		case '}':
			depth--
			if depth < 0 {
				return nil, false
			}
		case '|':
			if depth == 0 {
				flush()
			} else if depth == 1 {
				sub++
			}
		}
	}
	if depth != 0 {
		return nil, false
	}
	flush()
	return fields, true
}

func c18Eval(w *Worker, c *GCase) {
	w.Count("evaluations", 1)
	g := ref.FromSpec(c.Spec)
	if !g.Usable() {
		w.Count("skipped_reference_says_unusable", 1)
		return
	}
	text := c.Spec.Render()
	res := ygo.Build(text, ygo.Options{Fuel: buildFuel, Debug: true})
	if !res.OK() {
		w.Count("skipped_yaccgo_refused_usable_grammar", 1)
		return
	}
	vw, err := ygo.NewView(res.V, g)
	if err != nil {
		w.Count("skipped_front_end_mismatch", 1)
		return
	}
	key := c.Spec.Key()
	w.Distinct(key)
	v := res.V
	tab := v.GTable
	// the listing comes from a `debug` run, the parser from a `generate` run: both must build the same tables
	if plain := ygo.Build(text, ygo.Options{Fuel: buildFuel}); plain.OK() {
		if fmt.Sprint(plain.V.GTable) != fmt.Sprint(tab) || fmt.Sprint(plain.V.ActionTable, plain.V.OffsetTable, plain.V.CheckTable, plain.V.ActionDef, plain.V.GoToDef) != fmt.Sprint(v.ActionTable, v.OffsetTable, v.CheckTable, v.ActionDef, v.GoToDef) {
			w.Violate("C18|debug-run-builds-other-tables|"+key, fmt.Sprintf("grammar [%s]: the tables built by the debug run differ from the tables built without the debug flag, so the listing does not describe the generated parser", key), c,
				map[string]interface{}{"grammar_text": text, "debug_table": tab, "generate_table": plain.V.GTable})
			return
		}
	} else {
		w.Violate("C18|debug-run-verdict-differs|"+key, fmt.Sprintf("grammar [%s]: the debug run succeeds but the same grammar without the debug flag gives %s", key, plain.Diag()), c, nil)
		return
	}
	bad := func(kind, msg string) {
		w.Violate("C18|"+kind+"|"+key, fmt.Sprintf("%s: grammar [%s]: %s", kind, key, msg), c, map[string]interface{}{"grammar_text": text, "what": msg})
	}
	specName := func(id int) string {
		switch id {
		case 0:
			return "start"
		case 1:
			return "$"
		}
		return vw.SpecName(id)
	}
	// ---------------- graph
	var gr *gographviz.Graph
	out := ygo.Capture(func() {
		defer func() {
			if p := recover(); p != nil {
				gr = nil
			}
		}()
		gr = v.DrawGrammar(tab)
	})
	_ = out
	if gr == nil {
		bad("graph-panic", "DrawGrammar panics")
		return
	}
	if len(gr.Nodes.Nodes) != len(tab) {
		bad("graph-nodes", fmt.Sprintf("%d nodes for %d states", len(gr.Nodes.Nodes), len(tab)))
		return
	}
	type edge struct {
		from, to string
		label    string
	}
	gotEdges := map[edge]int{}
	for _, e := range gr.Edges.Edges {
		gotEdges[edge{e.Src, e.Dst, e.Attrs["label"]}]++
	}
	wantEdges := map[edge]int{}
	for i, row := range tab {
		node := gr.Nodes.Lookup[fmt.Sprintf("state_%d", i)]
		if node == nil {
			bad("graph-node-missing", fmt.Sprintf("no node state_%d", i))
			return
		}
		// expected label
		var items []string
		for _, it := range v.G.LR0.LR0Closure[i].Items {
			r := c.specRule(it.RuleIndex)
			s := dotName(r.L) + "-\\>"
			if len(r.R) == 0 {
				s += "ε"
			} else {
				for k, x := range r.R {
					if k == it.Dot {
						s += "•"
					}
					s += " " + dotName(x)
				}
				if it.Dot == len(r.R) {
					s += "•"
				}
			}
			items = append(items, s)
		}
		var look []string
		accept := false
		for sym, d := range row {
			switch {
			case d == vw.Acc:
				accept = true
			case d == vw.Err:
			case d >= 0:
				wantEdges[edge{fmt.Sprintf("state_%d", i), fmt.Sprintf("state_%d", d), "\"" + dotName(specName(sym)) + "\""}]++
			default:
				look = append(look, fmt.Sprintf("%s: reduce rule at %d", dotName(specName(sym)), -d))
			}
		}
		want := fmt.Sprintf("\"<f0> state %d|{%s}", i, strings.Join(items, "|"))
		if len(look) > 0 {
			want += "|{" + strings.Join(look, "|") + "}"
		}
		want += "\""
		// independent of the label text: the record structure Graphviz will see
		inner := strings.TrimSuffix(strings.TrimPrefix(node.Attrs["label"], "\""), "\"")
		wantFields := []int{0, len(items)}
		if len(look) > 0 {
			wantFields = append(wantFields, len(look))
		}
		if got, okf := recordFields(inner); !okf || fmt.Sprint(got) != fmt.Sprint(wantFields) {
			bad("graph-record-structure", fmt.Sprintf("node state_%d: the record label %s has the field structure %v (balanced=%v), the state has %d items and %d reduce annotations", i, node.Attrs["label"], got, okf, len(items), len(look)))
			return
		}
		if got := node.Attrs["label"]; got != want {
			bad("graph-label", fmt.Sprintf("node state_%d is labelled %s, the table and state say %s", i, got, want))
			return
		}
		filled := node.Attrs["style"] == "filled"
		if filled != accept {
			bad("graph-accept-mark", fmt.Sprintf("node state_%d filled=%v, row holds the accept code=%v", i, filled, accept))
			return
		}
		w.Count("graph_nodes_compared", 1)
	}
	if len(gotEdges) != len(wantEdges) {
		bad("graph-edges", fmt.Sprintf("%d distinct edges in the graph, %d shift/goto cells in the table", len(gotEdges), len(wantEdges)))
		return
	}
	for e, n := range wantEdges {
		if gotEdges[e] != n {
			bad("graph-edges", fmt.Sprintf("edge %s -> %s labelled %s: %d in the graph, %d in the table", e.from, e.to, e.label, gotEdges[e], n))
			return
		}
	}
	w.Count("graph_edges_compared", int64(len(wantEdges)))
	if _, perr := gographviz.Read([]byte(gr.String())); perr != nil {
		bad("graph-dot-syntax", "the DOT text of the graph does not parse: "+perr.Error())
		return
	}
	// ---------------- listing
	lst := parseListing(res.Stdout)
	if lst == nil {
		bad("listing-format", "the debug listing has no `Show State Closure` / `Show LookAhead SET` sections")
		return
	}
	if len(lst.states) != len(tab) {
		bad("listing-states", fmt.Sprintf("the listing shows %d states, the table has %d rows", len(lst.states), len(tab)))
		return
	}
	for i, ic := range v.G.LR0.LR0Closure {
		ls := lst.states[i]
		if ls == nil {
			bad("listing-state-missing", fmt.Sprintf("no block for state %d", i))
			return
		}
		var wantItems []string
		for _, it := range ic.Items {
			r := c.specRule(it.RuleIndex)
			s := internalName(r.L) + "-->"
			for k, x := range r.R {
				if k == it.Dot {
					s += "@"
				}
				s += " " + internalName(x) + " "
			}
			if it.Dot == len(r.R) {
				s += "@"
			}
			wantItems = append(wantItems, norm(s))
		}
		if strings.Join(ls.items, "\n") != strings.Join(wantItems, "\n") {
			bad("listing-items", fmt.Sprintf("state %d lists items %q, the automaton has %q", i, ls.items, wantItems))
			return
		}
		var wantGoto []string
		for _, gt := range ic.GoTo {
			wantGoto = append(wantGoto, norm(fmt.Sprintf("at %s goto %d", gt.Sym.Name, gt.ItemCl)))
		}
		if strings.Join(ls.gotos, "\n") != strings.Join(wantGoto, "\n") {
			bad("listing-goto", fmt.Sprintf("state %d lists %q, the automaton has %q", i, ls.gotos, wantGoto))
			return
		}
	}
	// lookahead lines
	var wantLA []string
	type rk struct{ st, rule int }
	la := map[rk]map[int]bool{}
	for _, rd := range v.VerifReduceLookaheads() {
		r := c.specRule(rd.Rule)
		s := fmt.Sprintf("%d:%s-->", rd.State, internalName(r.L))
		for _, x := range r.R {
			s += " " + internalName(x) + " "
		}
		s += " : "
		m := map[int]bool{}
		for _, sy := range rd.Lookahead {
			s += " " + v.G.Symbols[sy].Name
			m[sy] = true
		}
		la[rk{rd.State, rd.Rule}] = m
		wantLA = append(wantLA, norm(s))
	}
	sort.Strings(wantLA)
	gotLA := append([]string(nil), lst.lookaheads...)
	sort.Strings(gotLA)
	if strings.Join(gotLA, "\n") != strings.Join(wantLA, "\n") {
		bad("listing-lookaheads", fmt.Sprintf("the listing shows %q, yaccgo computed %q", gotLA, wantLA))
		return
	}
	// listing vs table
	a := g.LR0()
	y2r, okm := mapStates(vw, a)
	var t *ref.Table
	if okm {
		t = a.Table()
	}
	conflictCell := func(ys, ysym int) bool {
		if t == nil {
			return true
		}
		x := vw.SymToRef[ysym]
		cell := t.Cells[y2r[ys]][x]
		return cell != nil && len(cell.Cands) > 1
	}
	for i, row := range tab {
		gotoOf := map[int]int{}
		for _, gt := range v.G.LR0.LR0Closure[i].GoTo {
			gotoOf[int(gt.Sym.ID)] = gt.ItemCl
		}
		for sym, d := range row {
			w.Count("listing_cells_compared", 1)
			listedShift, hasShift := gotoOf[sym]
			var listedReds []int
			for k, m := range la {
				if k.st == i && m[sym] {
					listedReds = append(listedReds, k.rule)
				}
			}
			switch {
			case d == vw.Err:
				if (hasShift || len(listedReds) > 0) && !conflictCell(i, sym) {
					bad("listing-extra-action", fmt.Sprintf("state %d on %s: the listing shows an action, the table holds the error code and the cell has no conflict", i, specName(sym)))
					return
				}
			case d == vw.Acc:
				if !containsInt(listedReds, 0) {
					bad("listing-accept", fmt.Sprintf("state %d on %s: the table accepts but the listing shows no reduction of the start rule", i, specName(sym)))
					return
				}
			case d >= 0:
				if !hasShift || listedShift != d {
					bad("listing-shift", fmt.Sprintf("state %d on %s: the table shifts to %d, the listing says %v (present=%v)", i, specName(sym), d, listedShift, hasShift))
					return
				}
				if len(listedReds) > 0 && !conflictCell(i, sym) {
					bad("listing-extra-action", fmt.Sprintf("state %d on %s: listing shows a reduction besides the shift but the cell has no conflict", i, specName(sym)))
					return
				}
			default:
				if !containsInt(listedReds, -d) {
					bad("listing-reduce", fmt.Sprintf("state %d on %s: the table reduces by rule %d, the listing shows lookahead reductions %v", i, specName(sym), -d, listedReds))
					return
				}
				if (hasShift || len(listedReds) > 1) && !conflictCell(i, sym) {
					bad("listing-extra-action", fmt.Sprintf("state %d on %s: listing shows more actions than the table but the cell has no conflict", i, specName(sym)))
					return
				}
			}
		}
	}
	w.SampleEvery(w.Out.Counters["evaluations"], 4999, func() interface{} {
		return map[string]interface{}{"grammar": key, "states": len(tab), "listing_lookahead_lines": len(gotLA)}
	})
}

func containsInt(xs []int, v int) bool {
	for _, x := range xs {
		if x == v {
			return true
		}
	}
	return false
}

func internalName(n string) string {
	if n == "$accept" {
		return "start"
	}
	return gram.InternalName(n)
}

// specRule returns rule i of the grammar yaccgo works on (0 = augmented),
// written with the specification's names.
func (c *GCase) specRule(i int) gram.Rule {
	if i == 0 {
		return gram.Rule{L: "$accept", R: []string{c.Spec.StartSymbol()}}
	}
	return c.Spec.Rules[i-1]
}

func norm(s string) string { return strings.Join(strings.Fields(s), " ") }

type listedState struct {
	items []string
	gotos []string
}

type listing struct {
	states     map[int]*listedState
	lookaheads []string
}

func parseListing(out string) *listing {
	i := strings.Index(out, "=========Show State Closure=========")
	j := strings.Index(out, "===========SHOW TRANS================")
	k := strings.Index(out, "==========Show LookAhead SET===============")
	if i < 0 || j < i || k < j {
		return nil
	}
	l := &listing{states: map[int]*listedState{}}
	var cur *listedState
	inGoto := false
	for _, line := range strings.Split(out[i:j], "\n") {
		line = strings.TrimRight(line, " ")
		switch {
		case strings.HasPrefix(line, "--------state "):
			var n int
			fmt.Sscanf(line, "--------state %d", &n)
			cur = &listedState{}
			l.states[n] = cur
			inGoto = false
		case line == "GOTO:":
			inGoto = true
		case cur == nil || strings.TrimSpace(line) == "" || strings.HasPrefix(line, "===="):
		case inGoto:
			cur.gotos = append(cur.gotos, norm(line))
		default:
			cur.items = append(cur.items, norm(line))
		}
	}
	rest := out[k+len("==========Show LookAhead SET==============="):]
	for _, line := range strings.Split(rest, "\n") {
		if strings.HasPrefix(line, "warning:") || strings.HasPrefix(line, "nTerminals") || strings.HasPrefix(line, "it is nonassoc") ||
			strings.HasPrefix(line, "The table") || strings.TrimSpace(line) == "" {
			// output of the later phases
			if !strings.Contains(line, "-->") {
				continue
			}
		}
		if strings.Contains(line, "-->") && strings.Contains(line, " : ") {
			l.lookaheads = append(l.lookaheads, norm(line))
		}
	}
	return l
}
