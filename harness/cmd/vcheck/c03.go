package main

import (
	"encoding/json"
	"fmt"
	"regexp"
	"sort"
	"strconv"
	"strings"

	"verifharness/gram"
	"verifharness/ref"
	"verifharness/ygo"
)

// C03: lookahead sets are exactly LALR(1); conflicts are reported iff they exist.

func init() {
	register(&CheckDef{
		ID:    "C03",
		Level: "exploration",
		Rule: "every rule set of the bounded grammar classes plus the family list (LR(0)/SLR/NQLALR/LALR/LR(1) separators) goes through the real lookahead computation; " +
			"for every (state, completed rule) the set is compared with the LR(1)-merge definition; warnings on stdout are compared with the reference conflict cells; " +
			"the warning clause additionally on every precedence decoration (levels, associativities, %prec, both rule orders) of the conflicting rule sets of the small classes; additionally lalr.Digraph is run on every relation over <=4 nodes (65536 digraphs) against transitive closure; " +
			"a case is non-trivial when at least one reduce lookahead set was compared; cases are distinct rule sets / distinct digraphs",
		Assumptions: []string{
			"reference lookaheads come from the canonical LR(1) collection merged by core (ref/grammar.go), independent of DeRemer-Pennello",
			"states are matched by item set; grammars whose LR(0) automaton differs from the reference are skipped here and reported by C09",
			"the warning clause is judged on grammars whose conflict cells all have exactly two candidates that C04's statement covers",
		},
		Work: func(w *Worker) {
			forEachGrammar(w, classesFor(w), false, true, func(idx int64, c *GCase) { c03Eval(w, c) })
			c03Digraphs(w)
			// the "iff" of the warning clause needs precedence declarations: every decoration of the
			// conflicting rule sets of the small classes (the enumeration C04 uses for its cells)
			forEachDecorated(w, int64(1)<<39, func(c *GCase) { c03Eval(w, c) })
			// yaccgo numbers symbols by name and states by discovery order: every renaming of the
			// nonterminals (and of the named tokens) of the fifteen-symbol calculator gives another
			// numbering of the same automaton; the lookahead sets must not care
			c03Renamings(w, int64(1)<<40)
		},
		Replay: func(w *Worker, raw json.RawMessage) {
			var c GCase
			if json.Unmarshal(raw, &c) != nil {
				return
			}
			if c.Origin == "digraph" {
				var d digraphCase
				json.Unmarshal(c.Extra, &d)
				c03OneDigraph(w, d)
				return
			}
			if c.Spec != nil {
				c03Eval(w, &c)
			}
		},
	})
}

// lenient about wording (the message has a typo a maintainer may fix): "warning", "conflic…", state number, "sym" number
var warnRe = regexp.MustCompile(`(?i)warning:?[^\n]*?conflic\w*\s+(\d+),\s*sym\w*\s+(\d+)`)

// mapStates maps yaccgo state numbers to reference state numbers by item set.
func mapStates(vw *ygo.View, a *ref.Automaton) ([]int, bool) {
	n := vw.NStates
	if n != len(a.States) {
		return nil, false
	}
	m := make([]int, n)
	used := map[int]bool{}
	for i := 0; i < n; i++ {
		ri, ok := a.Index[ref.ItemsKey(vw.StateItems(i))]
		if !ok || used[ri] {
			return nil, false
		}
		used[ri] = true
		m[i] = ri
	}
	return m, true
}

// mapStatesManyToOne maps every state of yaccgo to the reference state with the same item set, also when
// several states of yaccgo hold the same set; false when some item set is not in the canonical collection.
func mapStatesManyToOne(vw *ygo.View, a *ref.Automaton) ([]int, bool) {
	m := make([]int, vw.NStates)
	for i := 0; i < vw.NStates; i++ {
		ri, ok := a.Index[ref.ItemsKey(vw.StateItems(i))]
		if !ok {
			return nil, false
		}
		m[i] = ri
	}
	return m, true
}

func setNames(g *ref.Grammar, s ref.Set) []string {
	var out []string
	for _, m := range s.Members() {
		if m == g.EOF() {
			out = append(out, "$end")
		} else {
			out = append(out, g.Names[m])
		}
	}
	sort.Strings(out)
	return out
}

func c03Eval(w *Worker, c *GCase) {
	w.Count("evaluations", 1)
	g, res, vw, _ := buildUsable(w, c)
	if g == nil {
		return
	}
	a := g.LR0()
	y2r, ok := mapStates(vw, a)
	if !ok {
		// yaccgo may hold one item set in several states (C09's business); every copy must still carry the
		// LALR(1) lookaheads of that item set
		if m, all := mapStatesManyToOne(vw, a); all {
			y2r, ok = m, true
			w.Count("item_sets_held_by_several_states_judged_per_copy", 1)
		}
	}
	if !ok {
		w.Count("skipped_lr0_mismatch", 1)
		return
	}
	t := a.Table()
	key := c.Spec.Key()
	w.Distinct(key)
	w.Max("lr1_states", int64(t.LR1States))
	w.SampleEvery(w.Out.Counters["evaluations"], 4999, func() interface{} {
		return map[string]interface{}{"grammar": key, "lr0_states": len(a.States), "lr1_states": t.LR1States, "conflict_free": t.ConflictFree}
	})
	seen := map[[2]int]bool{}
	for _, rd := range vw.V.VerifReduceLookaheads() {
		rs := y2r[rd.State]
		var got ref.Set
		for _, s := range rd.Lookahead {
			got.Add(vw.SymToRef[s])
		}
		want := t.LA[rs][rd.Rule]
		seen[[2]int{rs, rd.Rule}] = true
		w.Count("reduce_items_compared", 1)
		if got != want {
			kind := "lookahead-extra"
			if got.AndNot(want).IsZero() {
				kind = "lookahead-missing"
			} else if !want.AndNot(got).IsZero() {
				kind = "lookahead-differs"
			}
			w.Violate("C03|"+kind+"|"+key, fmt.Sprintf("%s: grammar [%s]: state with items %s, reduction %s: yaccgo %v, LALR(1) %v",
				kind, key, itemsText(g, a.States[rs].Items), g.RuleString(rd.Rule), setNames(g, got), setNames(g, want)), c,
				map[string]interface{}{"grammar_text": c.Spec.Render(), "rule": g.RuleString(rd.Rule), "yaccgo": setNames(g, got), "lalr1": setNames(g, want)})
			return
		}
	}
	for rs, m := range t.LA {
		for r := range m {
			if !seen[[2]int{rs, r}] {
				w.Violate("C03|reduce-item-missing|"+key, fmt.Sprintf("grammar [%s]: yaccgo has no reduce transition for %s in state %s", key, g.RuleString(r), itemsText(g, a.States[rs].Items)), c, nil)
				return
			}
		}
	}
	// warning clause
	warned := map[[2]int]bool{}
	for _, m := range warnRe.FindAllStringSubmatch(res.Stdout, -1) {
		st, _ := strconv.Atoi(m[1])
		sy, _ := strconv.Atoi(m[2])
		if st < len(y2r) && sy < len(vw.SymToRef) {
			warned[[2]int{y2r[st], vw.SymToRef[sy]}] = true
		}
	}
	judgable := true
	due := map[[2]int]bool{}
	for si, cells := range t.Cells {
		for x, cell := range cells {
			if len(cell.Cands) > 1 {
				if !cell.Judged || cell.Multi {
					// cells with more than two candidates: which pairs yaccgo compares (and warns about) is not specified
					judgable = false
				}
				if cell.Warn {
					due[[2]int{si, x}] = true
				}
			}
		}
	}
	if !judgable {
		w.Count("warning_clause_skipped_unspecified_cells", 1)
		return
	}
	w.Count("warning_clause_judged", 1)
	if len(due) > 0 {
		w.Count("grammars_with_unresolved_conflicts", 1)
	}
	for k := range due {
		if !warned[k] {
			w.Violate("C03|warning-missing|"+key, fmt.Sprintf("grammar [%s]: unresolved LALR(1) conflict in state %s on %s but no warning for it", key, itemsText(g, a.States[k[0]].Items), symName(g, k[1])), c,
				map[string]interface{}{"grammar_text": c.Spec.Render(), "stdout": res.Stdout})
			return
		}
	}
	for k := range warned {
		if !due[k] {
			w.Violate("C03|warning-spurious|"+key, fmt.Sprintf("grammar [%s]: warning for state %s on %s where the LALR(1) automaton has no unresolved conflict", key, itemsText(g, a.States[k[0]].Items), symName(g, k[1])), c,
				map[string]interface{}{"grammar_text": c.Spec.Render(), "stdout": res.Stdout})
			return
		}
	}
}

func symName(g *ref.Grammar, x int) string {
	if x == g.EOF() {
		return "$end"
	}
	return g.Names[x]
}

func itemsText(g *ref.Grammar, items []ref.Item) string {
	var parts []string
	for _, it := range items {
		r := g.Rules[it.Rule]
		s := g.Names[r.L] + "->"
		for i, x := range r.R {
			if i == it.Dot {
				s += "."
			}
			s += g.Names[x] + " "
		}
		if it.Dot == len(r.R) {
			s += "."
		}
		parts = append(parts, strings.TrimSpace(s))
	}
	return "{" + strings.Join(parts, "; ") + "}"
}

func c03Renamings(w *Worker, base int64) {
	var calc *gram.Spec
	for _, n := range gram.Families() {
		if n.Name == "calc-15" {
			calc = n.Spec
		}
	}
	if calc == nil {
		return
	}
	idx := base
	for _, names := range [][]string{calc.Nonterminals(), {"TNUM", "TID", "TSEMI"}} {
		perm := append([]string(nil), names...)
		var rec func(k int)
		rec = func(k int) {
			if k == len(perm) {
				if w.Mine(idx) {
					m := map[string]string{}
					same := true
					for i, n := range names {
						m[n] = perm[i]
						same = same && n == perm[i]
					}
					if !same {
						c := &GCase{Origin: "family:calc-15/renamed", Spec: calc.Renamed(m)}
						w.Begin(idx, c)
						w.Count("renamings_of_calc_15", 1)
						c03Eval(w, c)
					}
				}
				idx++
				return
			}
			for i := k; i < len(perm); i++ {
				perm[k], perm[i] = perm[i], perm[k]
				rec(k + 1)
				perm[k], perm[i] = perm[i], perm[k]
			}
		}
		rec(0)
	}
}
