package main

import (
	"encoding/json"
	"fmt"
	"regexp"
	"sort"
	"strings"

	"verifharness/gen"
	"verifharness/gen/rt"
	"verifharness/gram"
	"verifharness/lrm"
	"verifharness/ref"
	"verifharness/tsrun"
	"verifharness/ygo"
)

// C15: parses are independent: re-init and separate contexts do not interfere.

func init() {
	register(&CheckDef{
		ID:    "C15",
		Level: "model_checking",
		Rule: "(a) histories: per corpus parser every sequence of <=3 parses over a set of <=8 inputs chosen to contain the empty input, accepted, rejected-at-first-token, rejected-at-end, unknown-token and longest inputs, with ParserInit() between parses (global Go parser), one -o context re-initialised / a fresh context per parse, TypeScript initialize(); every parse must give the result of that input parsed alone (the model run, which the conformance replays bind to a fresh parser); " +
			"(b) interleavings (-o): 2 (quick) / 3 (thorough) contexts x input tuples, a cooperative scheduler in the driver yields at every lexer fetch and every semantic action and explores ALL schedules with at most 2 preemptions (unbounded for the short pairs), every parse must equal its solo result, a deviating schedule is replayed before it is reported; (c) the same bodies free-running on 8 goroutines in a -race build; " +
			"non-trivial = history/schedule in which at least two different inputs meet; distinct = distinct (parser, history or input tuple)",
		Assumptions: []string{
			"scheduling points at lexer fetches and semantic actions are the only places where user code runs inside Parser(); the generated driver itself has no synchronisation, so unsynchronised accesses are caught by the separate free-running -race pass",
			"solo reference = model run (bound to freshly initialised generated parsers by the conformance replays) and, for schedules, the same parse alone on a fresh context in the same process",
		},
		Work: func(w *Worker) { c15Work(w) },
		Replay: func(w *Worker, raw json.RawMessage) {
			var g GCase
			var c genCase
			if json.Unmarshal(raw, &g) == nil && g.Extra != nil && json.Unmarshal(g.Extra, &c) == nil && c.Spec != nil {
				c15Batch(w, []*genCase{&c}, "replay")
			}
		},
		Coverage: func(out *evidOut, cov map[string]interface{}) {
			cov["states"] = out.Counters["histories"] + out.Counters["schedules"]
			cov["transitions"] = out.Counters["history_parses"] + out.Counters["schedule_points"]
			cov["traces_validated_against_impl"] = out.Counters["history_parses_equal_to_solo"] + out.Counters["schedule_parses_equal_to_solo"]
			cov["explanation"] = "states = parse histories and thread schedules executed on compiled generated parsers; transitions = parses inside histories + scheduling points inside schedules; traces validated = parses whose complete observation (verdict, reductions with fetch counts, value) equals the solo run"
		},
	})
}

func c15Corpus(w *Worker) []*genCase {
	var out []*genCase
	for _, n := range gram.Families() {
		if ref.FromSpec(n.Spec).Usable() {
			out = append(out, &genCase{Origin: "family:" + n.Name, Spec: n.Spec})
		}
	}
	stride := int64(9)
	if w.Thorough() {
		stride = 2
	}
	for _, cl := range []gram.Class{{N: 2, T: 2, L: 2, R: 2}, {N: 1, T: 2, L: 3, R: 2}} {
		u := cl.Universe()
		cl.Enumerate(false, func(i int64, rules []int) bool {
			if i%stride == 1 {
				s := cl.SpecOf(u, rules)
				if ref.FromSpec(s).Usable() {
					out = append(out, &genCase{Origin: fmt.Sprintf("%s#%d", cl, i), Spec: s})
				}
			}
			return true
		})
	}
	return out
}

func c15Work(w *Worker) {
	corpus := c15Corpus(w)
	if w.Shard == 0 {
		w.Count("corpus_grammars", int64(len(corpus)))
	}
	var mine []*genCase
	for i, c := range corpus {
		if w.Mine(int64(i)) {
			mine = append(mine, c)
		}
	}
	const per = 40
	for lo := 0; lo < len(mine); lo += per {
		hi := lo + per
		if hi > len(mine) {
			hi = len(mine)
		}
		w.Begin(int64(lo), map[string]interface{}{"origin": "c15-batch", "first": mine[lo].Spec.Key()})
		c15Batch(w, mine[lo:hi], fmt.Sprintf("C15-%d-%d", w.Shard, lo))
	}
}

// chooseInputs picks <=8 inputs of different kinds using the model.
func chooseInputs(o *obs, m *lrm.Machine, k int) []string {
	all := allInputs(o.d, k)
	var picked []string
	have := map[string]bool{}
	add := func(s string) {
		if !have[s] && len(picked) < 8 {
			have[s] = true
			picked = append(picked, s)
		}
	}
	add("")
	var acc, rejFirst, rejEnd, unk []string
	for _, in := range all {
		p := o.predict(m, in)
		switch {
		case p.Class == "accept":
			acc = append(acc, in)
		case strings.Contains(in, "?"):
			unk = append(unk, in)
		case p.Class == "syntax-error" && p.Fetches == 1:
			rejFirst = append(rejFirst, in)
		case p.Class == "syntax-error" && p.Fetches == len(in)+1:
			rejEnd = append(rejEnd, in)
		}
	}
	pick := func(xs []string, which int) {
		if len(xs) == 0 {
			return
		}
		switch which {
		case 0:
			add(xs[0])
		case 1:
			add(xs[len(xs)-1])
		default:
			add(xs[len(xs)/2])
		}
	}
	pick(acc, 0)
	pick(acc, 1)
	pick(rejFirst, 0)
	pick(rejEnd, 1)
	pick(unk, 2)
	pick(acc, 2)
	pick(rejEnd, 0)
	for _, in := range all {
		add(in)
	}
	// one parse that is aborted by a panic of USER code (the harness lexer gives up on the character
	// \x01) in the middle of a sentence: a failed parse like any other as far as later parses go
	if len(acc) > 0 {
		s := acc[len(acc)-1]
		picked = append(picked, s[:(len(s)+1)/2]+"\x01")
	}
	return picked
}

func histories(inputs []string, depth int) [][]string {
	var out [][]string
	var rec func(h []string)
	rec = func(h []string) {
		if len(h) > 0 {
			out = append(out, append([]string(nil), h...))
		}
		if len(h) == depth {
			return
		}
		for _, in := range inputs {
			rec(append(h, in))
		}
	}
	rec(nil)
	return out
}

func sameResult(a, b *rt.Result) bool {
	if a.Class != b.Class {
		return false
	}
	if a.Class == "loop" || a.Class == "crash" {
		return true
	}
	return a.Fetches == b.Fetches && sameReds(a.Reds, b.Reds, true) && (a.Class != "accept" || (a.N == b.N && a.S == b.S))
}

func c15Batch(w *Worker, cases []*genCase, name string) {
	b, err := gen.NewBatch(w.Scratch, name)
	if err != nil {
		w.Note("INTERNAL: " + err.Error())
		return
	}
	defer b.Remove()
	variants := []string{gen.Go, gen.GoO, gen.GoOU, gen.TS}
	type ent struct {
		o      *obs
		inputs []string
		hist   [][]string
		solo   map[string]rt.Result
		dense  *lrm.Machine
		packed *lrm.Machine
	}
	var ents []*ent
	// every grammar twice: actions that always assign $$, and actions of which every second one does not
	var both []*genCase
	for _, c := range cases {
		both = append(both, c)
		if c.Shape == gen.UseAll && c.Tags == nil {
			both = append(both, &genCase{Origin: c.Origin, Spec: c.Spec, Shape: gen.Mixed})
			if strings.HasPrefix(c.Origin, "family:") {
				both = append(both, &genCase{Origin: c.Origin + " [nested parses]", Spec: c.Spec, Shape: gen.UseAll, Nested: true})
			}
		}
	}
	cases = both
	for i, c := range cases {
		g := ref.FromSpec(c.Spec)
		d := gen.Decorate(c.Spec, c.Tags, c.Shape)
		d.Nested = c.Nested
		o := &obs{c: c, g: g, d: d, items: map[string]*gen.Item{}}
		res := ygo.Build(d.Source(gen.Go, "model"), ygo.Options{Fuel: buildFuel})
		if !res.OK() {
			continue
		}
		vw, verr := ygo.NewView(res.V, g)
		if verr != nil {
			continue
		}
		o.vw = vw
		e := &ent{o: o, dense: lrm.Dense(vw.V), packed: packedIfIntact(w, vw.V)}
		e.inputs = chooseInputs(o, e.dense, 4)
		depth := 3
		e.hist = histories(e.inputs, depth)
		for vi, v := range variants {
			o.items[v] = b.Add(fmt.Sprintf("h%d_%d", i, vi), v, d)
		}
		ents = append(ents, e)
	}
	if err := b.BuildGo(); err != nil {
		w.Note("INTERNAL: " + err.Error())
		return
	}
	byPkg := map[string]*ent{}
	pkgVar := map[string]string{}
	var jobs []gen.Job
	modes := map[string][]string{gen.Go: {"init"}, gen.GoO: {"ctx-reinit", "ctx-fresh"}, gen.GoOU: {"ctx-reinit"}}
	type jobKey struct{ pkg, mode string }
	for _, e := range ents {
		for v, ms := range modes {
			it := e.o.items[v]
			if it.GenDiag != "" || it.BuildErr != "" {
				continue
			}
			byPkg[it.Pkg] = e
			pkgVar[it.Pkg] = v
			for _, m := range ms {
				jobs = append(jobs, gen.Job{Pkg: it.Pkg, Histories: e.hist, HistoryMode: m})
			}
		}
	}
	machineFor := func(e *ent, v string) *lrm.Machine {
		if e.packed != nil && !gen.IsUnpack(v) && v != gen.TS {
			return e.packed
		}
		return e.dense
	}
	judgeHistory := func(e *ent, v, mode string, h []string, rs []rt.Result) {
		w.Count("histories", 1)
		w.Count("evaluations", 1)
		m := machineFor(e, v)
		key := e.o.c.Spec.Key()
		diff := false
		for k := 1; k < len(h); k++ {
			if h[k] != h[0] {
				diff = true
			}
		}
		if diff {
			w.Distinct(key + "|" + v + "|" + mode + "|" + strings.Join(h, ","))
		}
		if len(rs) != len(h) {
			w.Note("INTERNAL: history result count")
			return
		}
		for k, in := range h {
			w.Count("history_parses", 1)
			want := e.o.predict(m, in)
			if strings.Contains(in, "\x01") {
				// the lexer panics at that character: what the parse alone gives is that panic
				want = rt.Result{Class: "crash"}
				if rs[k].Class == "crash" && !strings.Contains(rs[k].Panic, "harness: the lexer gives up") {
					rs[k].Class = "crash-of-another-kind"
				}
			}
			if rs[k].Later != "" {
				w.Violate("C15|result-changed-by-later-parse|"+v+"|"+mode+"|"+key+"|"+strings.Join(h, ","),
					fmt.Sprintf("parse %d of the history %q on the %s parser (%s) of grammar [%s]: Parser(%q) returned the value %d/%q; after the later parses of the history the same returned value reads %s",
						k+1, h, v, mode, key, in, rs[k].N, rs[k].S, rs[k].Later),
					&GCase{Origin: "c15", Extra: mustJSON(e.o.c)}, map[string]interface{}{"history": h, "variant": v, "mode": mode})
				return
			}
			if sameResult(&want, &rs[k]) {
				w.Count("history_parses_equal_to_solo", 1)
				continue
			}
			w.Violate("C15|history|"+v+"|"+mode+"|"+key+"|"+strings.Join(h, ","),
				fmt.Sprintf("parse %d of the history %q on the %s parser (%s) of grammar [%s]: input %q alone gives %s reds=%v value=%d/%q, after the earlier parses it gives %s reds=%v value=%d/%q %s",
					k+1, h, v, mode, key, in, want.Class, want.Reds, want.N, want.S, rs[k].Class, rs[k].Reds, rs[k].N, rs[k].S, rs[k].Panic),
				&GCase{Origin: "c15", Extra: mustJSON(e.o.c)}, map[string]interface{}{"history": h, "variant": v, "mode": mode})
			return
		}
	}
	jobMode := map[string][]string{}
	for _, j := range jobs {
		if j.Repeat == 0 {
			jobMode[j.Pkg] = append(jobMode[j.Pkg], j.HistoryMode)
		}
	}
	seenPerPkg := map[string]int{}
	// long-lived parsers: the input set parsed 12 000 times on ONE global parser / ONE -o context
	// (ParserInit before every parse); every round must give the results of the first round
	nLong := 0
	for _, e := range ents {
		if nLong >= 3 {
			break
		}
		nLong++
		for _, v := range []string{gen.Go, gen.GoO} {
			it := e.o.items[v]
			if it.GenDiag == "" && it.BuildErr == "" {
				jobs = append(jobs, gen.Job{Pkg: it.Pkg, Inputs: e.inputs, Repeat: 12000})
			}
		}
	}
	err = b.RunGo(jobs, func(o *gen.Out) {
		if o.Kind == "repeat" {
			e := byPkg[o.Pkg]
			w.Count("long_lived_parsers", 1)
			rounds := 12000
			if len(o.Trans) == 1 && o.Trans[0] < rounds && o.Pos < 0 {
				rounds = o.Trans[0]
				w.Cap(fmt.Sprintf("a long-lived parser was stopped after one minute (%d of 12000 rounds)", rounds))
			}
			w.Count("long_lived_parses", int64(rounds*len(e.inputs)))
			if o.Pos >= 0 {
				last := rt.Result{}
				if len(o.Results) > 0 {
					last = o.Results[len(o.Results)-1]
				}
				w.Violate("C15|long-lived|"+pkgVar[o.Pkg]+"|"+e.o.c.Spec.Key(), fmt.Sprintf("grammar [%s], %s parser: parse number %d on one long-lived parser/context (input %q, ParserInit() before it) no longer gives the result of the first round: now %s %s value=%d/%q", e.o.c.Spec.Key(), pkgVar[o.Pkg], o.Pos+1, o.Input, last.Class, last.Panic, last.N, last.S),
					&GCase{Origin: "c15", Extra: mustJSON(e.o.c)}, nil)
			}
			return
		}
		if o.Kind != "history" {
			return
		}
		e := byPkg[o.Pkg]
		// jobs of one package are answered in order: mode index = results seen so far / number of histories
		idx := seenPerPkg[o.Pkg] / len(e.hist)
		if idx >= len(jobMode[o.Pkg]) {
			idx = len(jobMode[o.Pkg]) - 1
		}
		seenPerPkg[o.Pkg]++
		mode := jobMode[o.Pkg][idx]
		judgeHistory(e, pkgVar[o.Pkg], mode, o.History, o.Results)
	})
	if err != nil {
		w.Note("INTERNAL: " + err.Error())
		return
	}
	// TypeScript histories
	var tsJobs []tsrun.Job
	tsEnt := map[string]*ent{}
	for _, e := range ents {
		it := e.o.items[gen.TS]
		if it.GenDiag != "" {
			continue
		}
		js, _, err := tsrun.EraseFile(it.File)
		if err != nil {
			continue
		}
		tsEnt[it.Pkg] = e
		tsJobs = append(tsJobs, tsrun.Job{Pkg: it.Pkg, File: js, Histories: e.hist})
	}
	if len(tsJobs) > 0 {
		if err := tsrun.Run(b.Dir, tsJobs, func(o *tsrun.Out) {
			if o.Kind == "history" {
				judgeHistory(tsEnt[o.Pkg], gen.TS, "initialize", o.History, o.Results)
			}
		}); err != nil {
			w.Note("INTERNAL: " + err.Error())
		}
	}
	// (b) schedules on -o parsers
	var sjobs []gen.SchedJob
	sEnt := map[string]*ent{}
	for _, e := range ents {
		for _, v := range []string{gen.GoO, gen.GoOU} {
			it := e.o.items[v]
			if it.GenDiag != "" || it.BuildErr != "" {
				continue
			}
			sEnt[it.Pkg] = e
			ins := e.inputs
			if len(ins) > 4 {
				ins = ins[:4]
			}
			if v == gen.GoOU && len(ins) > 2 {
				ins = ins[1:3]
			}
			for _, a := range ins {
				for _, bb := range ins {
					sjobs = append(sjobs, gen.SchedJob{Pkg: it.Pkg, Inputs: []string{a, bb}, Bound: 2, MaxSchedules: 20000})
				}
			}
			// unbounded exploration (every interleaving) for the two shortest
			// non-empty inputs of at most 2 tokens
			var short []string
			for _, in := range e.inputs {
				if len(in) >= 1 && len(in) <= 2 {
					short = append(short, in)
				}
			}
			if len(short) >= 2 {
				sjobs = append(sjobs, gen.SchedJob{Pkg: it.Pkg, Inputs: []string{short[0], short[len(short)-1]}, Bound: -1, MaxSchedules: 300000})
			}
			// the same with IsTrace = true (tracing must not couple the contexts either)
			if len(ins) >= 2 {
				sjobs = append(sjobs, gen.SchedJob{Pkg: it.Pkg, Inputs: []string{ins[1], ins[len(ins)-1]}, Bound: 2, MaxSchedules: 20000, Trace: true})
			}
			if w.Thorough() && len(ins) >= 3 {
				sjobs = append(sjobs, gen.SchedJob{Pkg: it.Pkg, Inputs: []string{ins[1], ins[2], ins[0]}, Bound: 2, MaxSchedules: 30000},
					gen.SchedJob{Pkg: it.Pkg, Inputs: []string{ins[2], ins[1], ins[2]}, Bound: 2, MaxSchedules: 30000})
			}
		}
	}
	judgeSched := func(o *gen.SchedOut, race bool) {
		e := sEnt[o.Pkg]
		if e == nil {
			return
		}
		key := e.o.c.Spec.Key()
		w.Count("evaluations", 1)
		if o.Kind == "skipped-after-deadlock" {
			return
		}
		if o.Kind == "sched-deadlock" {
			w.Violate("C15|deadlock|"+o.Pkg[len(o.Pkg)-1:]+"|"+key+"|"+strings.Join(o.Inputs, ","),
				fmt.Sprintf("interleaved parses on separate contexts block each other: grammar [%s], inputs %q, schedule %v: parse %d never reaches its next lexer call or its end while the other parse is suspended (alone it returns normally): %s",
					key, o.Inputs, o.BadSchedule, o.BadThread, o.Err),
				&GCase{Origin: "c15", Extra: mustJSON(e.o.c)}, map[string]interface{}{"inputs": o.Inputs, "schedule": o.BadSchedule})
			return
		}
		if o.Err != "" {
			w.Note("INTERNAL: scheduler: " + o.Err)
			return
		}
		if race {
			w.Count("race_parses", int64(o.Schedules))
		} else {
			w.Count("schedules", int64(o.Schedules))
			w.Count("schedule_points", int64(o.Schedules*o.Points))
			w.Count("schedule_parses_equal_to_solo", int64(o.Schedules*len(o.Inputs)))
			w.Max("schedule_points_in_one_schedule", int64(o.Points))
			if o.Capped {
				w.Cap("schedule cap reached for some input tuple")
			}
			if len(o.Inputs) > 1 && o.Inputs[0] != o.Inputs[1] {
				w.Distinct(key + "|sched|" + o.Pkg + strings.Join(o.Inputs, ","))
			}
			for _, n := range o.Outcomes {
				w.Max("distinct_outcomes_of_one_parse", int64(n))
			}
		}
		// the solo results must themselves be the model's
		for k, in := range o.Inputs {
			want := e.o.predict(machineFor(e, gen.GoO), in)
			if k < len(o.Solo) && !race && !sameResult(&want, &o.Solo[k]) && !sameResult(func() *rt.Result { x := e.o.predict(e.dense, in); return &x }(), &o.Solo[k]) {
				w.Count("solo_differs_from_model", 1)
			}
		}
		if o.BadThread >= 0 {
			if !race && !o.Replayed {
				w.Note(fmt.Sprintf("INTERNAL: schedule %v of %v did not reproduce on replay", o.BadSchedule, o.Inputs))
				return
			}
			kind := "interleaving"
			if race {
				kind = "concurrent"
			}
			w.Violate("C15|"+kind+"|"+o.Pkg[len(o.Pkg)-1:]+"|"+key+"|"+strings.Join(o.Inputs, ","),
				fmt.Sprintf("%s parses on separate contexts interfere: grammar [%s], inputs %q, schedule %v: parse %d alone gives %s value=%d/%q, here %s value=%d/%q %s",
					kind, key, o.Inputs, o.BadSchedule, o.BadThread, o.Solo[min(o.BadThread, len(o.Solo)-1)].Class, o.Solo[min(o.BadThread, len(o.Solo)-1)].N, o.Solo[min(o.BadThread, len(o.Solo)-1)].S, o.BadResult.Class, o.BadResult.N, o.BadResult.S, o.BadResult.Panic),
				&GCase{Origin: "c15", Extra: mustJSON(e.o.c)}, map[string]interface{}{"inputs": o.Inputs, "schedule": o.BadSchedule})
		}
	}
	if len(sjobs) > 0 {
		if out, err := b.RunSched(sjobs, false, func(o *gen.SchedOut) { judgeSched(o, false) }); err != nil {
			w.Note("INTERNAL: scheduler run failed: " + err.Error() + " " + tailStr(out, 500))
		}
	}
	// (c) free-running race pass on a few parsers of the batch
	if w.Shard%4 == 0 || w.replay {
		var rjobs []gen.SchedJob
		n := 0
		for _, e := range ents {
			it := e.o.items[gen.GoO]
			if it.GenDiag != "" || it.BuildErr != "" || n >= 6 {
				continue
			}
			n++
			rjobs = append(rjobs, gen.SchedJob{Pkg: it.Pkg, Inputs: e.inputs, Goroutines: 8, Rounds: 30})
		}
		if len(rjobs) > 0 {
			if err := b.BuildRace(); err != nil {
				w.Note("INTERNAL: " + err.Error())
				return
			}
			out, err := b.RunSched(rjobs, true, func(o *gen.SchedOut) { judgeSched(o, true) })
			w.Count("race_jobs", int64(len(rjobs)))
			if strings.Contains(out, "DATA RACE") {
				first := out[strings.Index(out, "DATA RACE"):]
				w.SetAdd("race_reports", clip(first, 2500))
				w.Violate("C15|data-race|"+raceSignature(first), "the race detector reports a data race between parses on separate contexts: "+firstLines(first, 12),
					&GCase{Origin: "c15", Extra: mustJSON(ents[0].o.c)}, map[string]interface{}{"report": clip(first, 3000)})
			} else if err != nil {
				w.Note("INTERNAL: race run failed: " + err.Error() + " " + tailStr(out, 500))
			}
		}
	}
	if len(ents) > 0 {
		w.Sample(map[string]interface{}{"grammar": ents[0].o.c.Spec.Key(), "inputs": ents[0].inputs, "histories": len(ents[0].hist), "example_history": ents[0].hist[len(ents[0].hist)/2]})
	}
}

func firstLines(s string, n int) string {
	ls := strings.Split(s, "\n")
	if len(ls) > n {
		ls = ls[:n]
	}
	return strings.Join(ls, " | ")
}

func min(a, b int) int {
	if a < b {
		return a
	}
	return b
}

var raceFrameRe = regexp.MustCompile(`gendrv/[a-z]\d+_\d+\.([A-Za-z_().*]+)`)

// raceSignature names the generated-code functions of the first report
// (addresses, goroutine numbers and package numbers vary from run to run).
func raceSignature(report string) string {
	if i := strings.Index(report, "=================="); i > 0 {
		report = report[:i]
	}
	seen := map[string]bool{}
	var fs []string
	for _, m := range raceFrameRe.FindAllStringSubmatch(report, -1) {
		if !seen[m[1]] {
			seen[m[1]] = true
			fs = append(fs, m[1])
		}
	}
	sort.Strings(fs)
	return strings.Join(fs, ",")
}
