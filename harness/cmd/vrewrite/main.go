// vrewrite produces a `go build -overlay` description for the current working
// tree of /repo in which
//
//   - every `for k, v := range m` over a map iterates over
//     verifsched.Keys(site, m) instead (the harness owns the order), and
//   - every `for` / `range` loop body and every function body starts with
//     verifsched.Tick() (the harness owns a fuel counter, so non-termination
//     is a deterministic observation, not a wall-clock one).
//
// /repo itself is never written. The rewritten files and the virtual package
// github.com/acekingke/yaccgo/verifsched are placed in the output directory.
//
// usage: vrewrite -repo /repo -out <dir> [-sched <dir with sched.go>]
package main

import (
	"bytes"
	"encoding/json"
	"flag"
	"fmt"
	"go/ast"
	"go/format"
	"go/token"
	"go/types"
	"os"
	"path/filepath"
	"sort"
	"strings"

	"golang.org/x/tools/go/packages"
)

const schedImport = "github.com/acekingke/yaccgo/verifsched"

type siteInfo struct {
	Site string `json:"site"`
	File string `json:"file"`
	Line int    `json:"line"`
	Key  string `json:"key_type"`
	Func string `json:"func"`
}

func main() {
	repo := flag.String("repo", "/repo", "repository root")
	out := flag.String("out", "", "output directory")
	schedSrc := flag.String("sched", "", "directory holding the verifsched package source")
	flag.Parse()
	if *out == "" || *schedSrc == "" {
		fmt.Fprintln(os.Stderr, "vrewrite: -out and -sched are required")
		os.Exit(2)
	}
	if err := os.MkdirAll(*out, 0o755); err != nil {
		fatal(err)
	}
	cfg := &packages.Config{
		Mode: packages.NeedName | packages.NeedFiles | packages.NeedCompiledGoFiles | packages.NeedSyntax |
			packages.NeedTypes | packages.NeedTypesInfo | packages.NeedImports,
		Dir:        *repo,
		BuildFlags: []string{"-tags=verif"},
	}
	pkgs, err := packages.Load(cfg, "./...")
	if err != nil {
		fatal(err)
	}
	bad := false
	for _, p := range pkgs {
		for _, e := range p.Errors {
			fmt.Fprintln(os.Stderr, "vrewrite: load error:", e)
			bad = true
		}
	}
	if bad {
		os.Exit(2) // the working tree does not build: not a verdict
	}
	replace := map[string]string{}
	var sites []siteInfo
	for _, p := range pkgs {
		if strings.HasSuffix(p.PkgPath, "/verifsched") {
			continue
		}
		for i, f := range p.Syntax {
			fname := p.CompiledGoFiles[i]
			if strings.HasSuffix(fname, "_test.go") {
				continue
			}
			rel, _ := filepath.Rel(*repo, fname)
			rw := &rewriter{fset: p.Fset, info: p.TypesInfo, rel: rel, pkg: p.Types}
			rw.file(f)
			if !rw.changed {
				continue
			}
			sites = append(sites, rw.sites...)
			for _, cg := range f.Comments {
				for _, c := range cg.List {
					if strings.HasPrefix(c.Text, "//go:embed") || strings.HasPrefix(c.Text, "//go:linkname") || strings.HasPrefix(c.Text, "//export") {
						fatal(fmt.Errorf("%s: directive %q cannot be carried through the rewrite", rel, c.Text))
					}
				}
			}
			// new nodes have no positions; free-floating comments could be
			// printed inside them, so comments are dropped (build
			// constraints were already evaluated by the loader)
			f.Comments = nil
			addImport(f)
			var buf bytes.Buffer
			if err := format.Node(&buf, p.Fset, f); err != nil {
				fatal(fmt.Errorf("%s: %v", rel, err))
			}
			dst := filepath.Join(*out, "src", rel)
			os.MkdirAll(filepath.Dir(dst), 0o755)
			if err := os.WriteFile(dst, buf.Bytes(), 0o644); err != nil {
				fatal(err)
			}
			replace[fname] = dst
		}
	}
	// virtual package
	ents, err := os.ReadDir(*schedSrc)
	if err != nil {
		fatal(err)
	}
	for _, e := range ents {
		if !strings.HasSuffix(e.Name(), ".go") || strings.HasSuffix(e.Name(), "_test.go") {
			continue
		}
		abs, _ := filepath.Abs(filepath.Join(*schedSrc, e.Name()))
		replace[filepath.Join(*repo, "verifsched", e.Name())] = abs
	}
	ov, _ := json.MarshalIndent(map[string]interface{}{"Replace": replace}, "", " ")
	if err := os.WriteFile(filepath.Join(*out, "overlay.json"), ov, 0o644); err != nil {
		fatal(err)
	}
	sort.Slice(sites, func(i, j int) bool { return sites[i].Site < sites[j].Site })
	sj, _ := json.MarshalIndent(sites, "", " ")
	os.WriteFile(filepath.Join(*out, "sites.json"), sj, 0o644)
	fmt.Printf("vrewrite: %d files rewritten, %d map-range sites\n", len(replace), len(sites))
}

func fatal(err error) {
	fmt.Fprintln(os.Stderr, "vrewrite:", err)
	os.Exit(2)
}

type rewriter struct {
	fset    *token.FileSet
	info    *types.Info
	pkg     *types.Package
	rel     string
	changed bool
	sites   []siteInfo
	fn      string
	n       int
	label   *ast.Ident
}

func tick() ast.Stmt {
	return &ast.ExprStmt{X: &ast.CallExpr{Fun: &ast.SelectorExpr{X: ast.NewIdent("verifsched"), Sel: ast.NewIdent("Tick")}}}
}

func (rw *rewriter) file(f *ast.File) {
	for _, d := range f.Decls {
		fd, ok := d.(*ast.FuncDecl)
		if !ok || fd.Body == nil {
			continue
		}
		rw.fn = fd.Name.Name
		if fd.Recv != nil && len(fd.Recv.List) == 1 {
			rw.fn = types.ExprString(fd.Recv.List[0].Type) + "." + fd.Name.Name
		}
		rw.block(fd.Body)
		fd.Body.List = append([]ast.Stmt{tick()}, fd.Body.List...)
		rw.changed = true
	}
}

// block rewrites the statements of a block in place.
func (rw *rewriter) block(b *ast.BlockStmt) {
	if b == nil {
		return
	}
	for i, s := range b.List {
		b.List[i] = rw.stmt(s)
	}
}

func (rw *rewriter) stmt(s ast.Stmt) ast.Stmt {
	switch s := s.(type) {
	case *ast.BlockStmt:
		rw.block(s)
	case *ast.IfStmt:
		rw.block(s.Body)
		if s.Else != nil {
			s.Else = rw.stmt(s.Else)
		}
		rw.funcLits(s.Init)
		rw.funcLitsExpr(s.Cond)
	case *ast.ForStmt:
		rw.block(s.Body)
		s.Body.List = append([]ast.Stmt{tick()}, s.Body.List...)
	case *ast.RangeStmt:
		rw.block(s.Body)
		if t := rw.info.TypeOf(s.X); t != nil {
			if _, ok := t.Underlying().(*types.Map); ok {
				return rw.mapRange(s, t.Underlying().(*types.Map))
			}
		}
		s.Body.List = append([]ast.Stmt{tick()}, s.Body.List...)
	case *ast.SwitchStmt:
		for _, c := range s.Body.List {
			cc := c.(*ast.CaseClause)
			for i, st := range cc.Body {
				cc.Body[i] = rw.stmt(st)
			}
		}
	case *ast.TypeSwitchStmt:
		for _, c := range s.Body.List {
			cc := c.(*ast.CaseClause)
			for i, st := range cc.Body {
				cc.Body[i] = rw.stmt(st)
			}
		}
	case *ast.SelectStmt:
		for _, c := range s.Body.List {
			cc := c.(*ast.CommClause)
			for i, st := range cc.Body {
				cc.Body[i] = rw.stmt(st)
			}
		}
	case *ast.LabeledStmt:
		if rs, ok := s.Stmt.(*ast.RangeStmt); ok {
			if t := rw.info.TypeOf(rs.X); t != nil {
				if _, isMap := t.Underlying().(*types.Map); isMap {
					// keep the label on the loop itself so that
					// `continue L` / `break L` stay valid
					rw.label = s.Label
					return rw.stmt(rs)
				}
			}
		}
		s.Stmt = rw.stmt(s.Stmt)
	default:
		rw.funcLits(s)
	}
	return s
}

// funcLits descends into function literals contained in a simple statement.
func (rw *rewriter) funcLits(n ast.Node) {
	if n == nil {
		return
	}
	ast.Inspect(n, func(x ast.Node) bool {
		if fl, ok := x.(*ast.FuncLit); ok {
			rw.block(fl.Body)
			return false
		}
		return true
	})
}

func (rw *rewriter) funcLitsExpr(e ast.Expr) {
	if e != nil {
		rw.funcLits(e)
	}
}

// mapRange turns
//
//	for k, v := range m { body }
//
// into
//
//	for _, k := range verifsched.Keys("site", m) {
//	    v, verifOK := m[k]; if !verifOK { continue }; _ = v
//	    verifsched.Tick(); body
//	}
//
// The existence re-check keeps the Go semantics for entries deleted during
// the loop; entries inserted during the loop are not visited, which the
// language allows.
func (rw *rewriter) mapRange(s *ast.RangeStmt, mt *types.Map) ast.Stmt {
	rw.n++
	pos := rw.fset.Position(s.Pos())
	site := fmt.Sprintf("%s:%s#%d", rw.rel, rw.fn, rw.n)
	rw.sites = append(rw.sites, siteInfo{Site: site, File: rw.rel, Line: pos.Line, Key: mt.Key().String(), Func: rw.fn})
	rw.changed = true

	keyIdent := ast.NewIdent(fmt.Sprintf("verifK%d", rw.n))
	okIdent := ast.NewIdent(fmt.Sprintf("verifOK%d", rw.n))
	var pre []ast.Stmt
	define := s.Tok == token.DEFINE
	isBlank := func(e ast.Expr) bool {
		if e == nil {
			return true
		}
		id, ok := e.(*ast.Ident)
		return ok && id.Name == "_"
	}
	// the ranged expression is evaluated once, as in the original
	mIdent := ast.NewIdent(fmt.Sprintf("verifM%d", rw.n))
	bind := &ast.AssignStmt{Lhs: []ast.Expr{mIdent}, Tok: token.DEFINE, Rhs: []ast.Expr{s.X}}
	call := &ast.CallExpr{
		Fun:  &ast.SelectorExpr{X: ast.NewIdent("verifsched"), Sel: ast.NewIdent("Keys")},
		Args: []ast.Expr{&ast.BasicLit{Kind: token.STRING, Value: fmt.Sprintf("%q", site)}, mIdent},
	}
	// key
	if !isBlank(s.Key) {
		tok := token.ASSIGN
		if define {
			tok = token.DEFINE
		}
		pre = append(pre, &ast.AssignStmt{Lhs: []ast.Expr{s.Key}, Tok: tok, Rhs: []ast.Expr{keyIdent}})
		if define {
			pre = append(pre, &ast.AssignStmt{Lhs: []ast.Expr{ast.NewIdent("_")}, Tok: token.ASSIGN, Rhs: []ast.Expr{s.Key}})
		}
	}
	idx := &ast.IndexExpr{X: mIdent, Index: keyIdent}
	if !isBlank(s.Value) {
		if define {
			pre = append(pre, &ast.AssignStmt{Lhs: []ast.Expr{s.Value, okIdent}, Tok: token.DEFINE, Rhs: []ast.Expr{idx}})
			pre = append(pre, &ast.AssignStmt{Lhs: []ast.Expr{ast.NewIdent("_")}, Tok: token.ASSIGN, Rhs: []ast.Expr{s.Value}})
		} else {
			tmp := ast.NewIdent(fmt.Sprintf("verifV%d", rw.n))
			pre = append(pre, &ast.AssignStmt{Lhs: []ast.Expr{tmp, okIdent}, Tok: token.DEFINE, Rhs: []ast.Expr{idx}})
			pre = append(pre, &ast.AssignStmt{Lhs: []ast.Expr{s.Value}, Tok: token.ASSIGN, Rhs: []ast.Expr{tmp}})
		}
	} else {
		pre = append(pre, &ast.AssignStmt{Lhs: []ast.Expr{ast.NewIdent("_"), okIdent}, Tok: token.DEFINE, Rhs: []ast.Expr{idx}})
	}
	// deleted meanwhile: skip (must come before the user-visible assignments
	// would matter; assignments to k/v of a skipped entry are harmless
	// because the original loop would not have run the body either, but to
	// be exact we test first)
	check := &ast.IfStmt{Cond: &ast.UnaryExpr{Op: token.NOT, X: okIdent}, Body: &ast.BlockStmt{List: []ast.Stmt{&ast.BranchStmt{Tok: token.CONTINUE}}}}
	// order: lookup (defines ok and, for :=, the value), existence check,
	// then the user-visible assignments
	var body []ast.Stmt
	for _, st := range pre {
		if as, ok := st.(*ast.AssignStmt); ok && len(as.Lhs) == 2 {
			body = append(body, st)
		}
	}
	body = append(body, check)
	for _, st := range pre {
		if as, ok := st.(*ast.AssignStmt); !ok || len(as.Lhs) != 2 {
			body = append(body, st)
		}
	}
	body = append(body, tick())
	body = append(body, s.Body.List...)
	loop := &ast.RangeStmt{
		Key:   ast.NewIdent("_"),
		Value: keyIdent,
		Tok:   token.DEFINE,
		X:     call,
		Body:  &ast.BlockStmt{List: body},
	}
	if rw.label != nil {
		lab := rw.label
		rw.label = nil
		return &ast.BlockStmt{List: []ast.Stmt{bind, &ast.LabeledStmt{Label: lab, Stmt: loop}}}
	}
	return &ast.BlockStmt{List: []ast.Stmt{bind, loop}}
}

func addImport(f *ast.File) {
	for _, im := range f.Imports {
		if im.Path.Value == fmt.Sprintf("%q", schedImport) {
			return
		}
	}
	spec := &ast.ImportSpec{Name: ast.NewIdent("verifsched"), Path: &ast.BasicLit{Kind: token.STRING, Value: fmt.Sprintf("%q", schedImport)}}
	gd := &ast.GenDecl{Tok: token.IMPORT, Specs: []ast.Spec{spec}}
	f.Decls = append([]ast.Decl{gd}, f.Decls...)
	f.Imports = append(f.Imports, spec)
}
