package tsrun

import (
	"bufio"
	"context"
	_ "embed"
	"encoding/json"
	"fmt"
	"os"
	"os/exec"
	"path/filepath"
	"time"

	"verifharness/evid"
	"verifharness/gen/rt"
)

//go:embed runner.js
var runnerJS string

type Job struct {
	Pkg       string     `json:"pkg"`
	File      string     `json:"file"`
	Inputs    []string   `json:"inputs"`
	NStates   int        `json:"nstates"`
	NSyms     int        `json:"nsyms"`
	TransLo   int        `json:"trans_lo"`
	TransHi   int        `json:"trans_hi"`
	Fuel      int        `json:"fuel"`
	Histories [][]string `json:"histories,omitempty"`
	LoadOnly  bool       `json:"load_only,omitempty"`
}

type Out struct {
	Pkg     string      `json:"pkg"`
	Input   string      `json:"input"`
	Kind    string      `json:"kind"`
	Res     *rt.Result  `json:"res,omitempty"`
	Dump    [][]int     `json:"dump,omitempty"`
	Trans   []int       `json:"trans,omitempty"`
	Err     string      `json:"err,omitempty"`
	History []string    `json:"history,omitempty"`
	Results []rt.Result `json:"results,omitempty"`
}

// EraseFile erases the types of a generated .ts file and writes the .js next
// to it; it returns the .js path and the log of deleted spans.
func EraseFile(tsPath string) (string, []string, error) {
	b, err := os.ReadFile(tsPath)
	if err != nil {
		return "", nil, err
	}
	e := Erase(string(b))
	js := tsPath[:len(tsPath)-len(filepath.Ext(tsPath))] + ".js"
	return js, e.Deleted, os.WriteFile(js, []byte(e.JS), 0o644)
}

// Run executes the jobs in one Node process.
func Run(dir string, jobs []Job, f func(o *Out)) error {
	rp := filepath.Join(dir, "runner.js")
	if err := os.WriteFile(rp, []byte(runnerJS), 0o644); err != nil {
		return err
	}
	jp := filepath.Join(dir, "tsjobs.jsonl")
	op := filepath.Join(dir, "tsout.jsonl")
	jf, err := os.Create(jp)
	if err != nil {
		return err
	}
	bw := bufio.NewWriter(jf)
	enc := json.NewEncoder(bw)
	for _, j := range jobs {
		enc.Encode(j)
	}
	bw.Flush()
	jf.Close()
	ctx, cancel := context.WithTimeout(context.Background(), 30*time.Minute)
	defer cancel()
	node, lerr := exec.LookPath("node")
	if lerr != nil {
		return lerr
	}
	cmd := evid.Guarded(ctx, 1800, dir, nil, node, rp, jp, op)
	out, err := cmd.CombinedOutput()
	if err != nil {
		s := string(out)
		if len(s) > 3000 {
			s = s[len(s)-3000:]
		}
		return fmt.Errorf("node runner failed: %v\n%s", err, s)
	}
	of, err := os.Open(op)
	if err != nil {
		return err
	}
	defer of.Close()
	dec := json.NewDecoder(bufio.NewReaderSize(of, 1<<20))
	for dec.More() {
		var o Out
		if err := dec.Decode(&o); err != nil {
			return err
		}
		f(&o)
	}
	return nil
}
