// Node runner for type-erased generated TypeScript parsers.
// usage: node runner.js jobs.json out.jsonl
// Each parser is loaded in its own vm context; console output is captured.
'use strict';
const vm = require('vm');
const fs = require('fs');
const MOD = 1000003;
const FUEL = { fuel: true };

function makeState() {
  const state = { cur: null, parser: null, errors: [], logs: [] };
  state.RT = {
    fetch() { const r = state.cur; if (!r) return; r.fetches++; if (--r.fuel < 0) throw FUEL; },
    rec(rule) { const r = state.cur; if (!r) return; r.reds.push({ r: rule, f: r.fetches }); if (--r.fuel < 0) throw FUEL; },
    tick() { const r = state.cur; if (!r) return; if (--r.fuel < 0) throw FUEL; },
    tokN(ch, p) { return (ch * 31 + p + 1) % MOD; },
    tokS(ch, p) { return String.fromCharCode(ch) + p; },
    hs(r, xs) { return '(' + r + ':' + xs.join(',') + ')'; },
    hn(r, xs) { let h = (r * 1009) % MOD; xs.forEach((x, i) => { h = (h * 131 + (i + 1) * (x % MOD) * 31 + 7) % MOD; }); return h; },
    sn(x) { return '#' + x; },
    ns(s) { let h = 0; for (let i = 0; i < s.length; i++) { h = (h * 33 + s.charCodeAt(i) * ((i % 7) + 1)) % MOD; } return h; },
    exportParser(p) { state.parser = p; },
  };
  state.console = {
    log(...a) { state.logs.push(a.map(String).join(' ')); },
    error(...a) { state.errors.push(a.map(String).join(' ')); },
    warn(...a) { state.errors.push(a.map(String).join(' ')); },
  };
  return state;
}

function runOne(state, input, fuel, doInit) {
  const p = state.parser;
  state.cur = { fetches: 0, reds: [], fuel: fuel };
  state.errors = [];
  let cls = null, v = null, panic = '';
  try {
    // run inside the context with a time limit: a generated parser that loops
    // without calling the lexer or an action burns no fuel
    state.ctx.__verifInput = input;
    state.ctx.__verifInit = doInit;
    v = vm.runInContext('(__verifInit ? __verifParser.init() : 0, __verifParser.parse(__verifInput))', state.ctx, { timeout: 8000 });
  } catch (e) {
    if (e === FUEL) cls = 'loop';
    else if (e && e.code === 'ERR_SCRIPT_EXECUTION_TIMEOUT') { cls = 'hang'; panic = 'the generated parser does not return (8 s)'; }
    else { cls = 'crash'; panic = (e && e.name ? e.name + ': ' : '') + (e && e.message !== undefined ? e.message : String(e)); }
  }
  if (!cls) {
    if (v === null || v === undefined) {
      cls = state.errors.some(t => /^Gramm[ae]r error/.test(t)) ? 'syntax-error' : 'nil';
      if (cls === 'nil') panic = 'Parser returned ' + v + ' without logging a grammar error';
    } else cls = 'accept';
  }
  const res = { class: cls, fetches: state.cur.fetches, reds: state.cur.reds, n: 0, s: '' };
  if (panic) res.panic = panic;
  if (cls === 'accept') {
    res.n = (typeof v.n === 'number' && Number.isFinite(v.n)) ? v.n : 0;
    res.s = (typeof v.s === 'string') ? v.s : (v.s === undefined || v.s === null ? '' : String(v.s));
    if (v.n !== undefined && typeof v.n !== 'number') res.s += '<n:' + String(v.n) + '>';
  }
  if (state.errors.length) res.trace = state.errors.join('\n');
  state.cur = null;
  return res;
}

function main() {
  const jobs = fs.readFileSync(process.argv[2], 'utf8').split('\n').filter(l => l.trim()).map(l => JSON.parse(l));
  const out = fs.openSync(process.argv[3], 'w');
  const emit = o => fs.writeSync(out, JSON.stringify(o) + '\n');
  for (const j of jobs) {
    const state = makeState();
    let code;
    try {
      code = fs.readFileSync(j.file, 'utf8');
      const ctx = vm.createContext({ RT: state.RT, console: state.console });
      state.ctx = ctx;
      vm.runInContext(code, ctx, { filename: j.pkg + '.js', timeout: 20000 });
      ctx.__verifParser = state.parser;
      if (!state.parser && !j.load_only) throw new Error('the generated file did not reach the end of the harness epilogue');
    } catch (e) {
      emit({ pkg: j.pkg, kind: 'load', err: (e && e.name ? e.name + ': ' : '') + (e && e.message ? e.message : String(e)) });
      continue;
    }
    emit({ pkg: j.pkg, kind: 'load' });
    if (j.load_only) continue;
    if (j.nstates > 0) {
      try {
        const d = [];
        for (let s = 0; s < j.nstates; s++) { const row = []; for (let a = 0; a < j.nsyms; a++) row.push(state.parser.action(s, a)); d.push(row); }
        emit({ pkg: j.pkg, kind: 'dump', dump: d });
      } catch (e) { emit({ pkg: j.pkg, kind: 'dump', err: String(e) }); }
    }
    if (j.trans_hi > j.trans_lo) {
      const t = [];
      for (let c = j.trans_lo; c <= j.trans_hi; c++) t.push(state.parser.translate(c));
      emit({ pkg: j.pkg, kind: 'trans', trans: t });
    }
    const fuel = j.fuel || 5000;
    for (const input of (j.inputs || [])) {
      emit({ pkg: j.pkg, input: input, kind: 'run', res: runOne(state, input, fuel, true) });
    }
    for (const h of (j.histories || [])) {
      // a history is a list of inputs parsed one after the other on the same
      // loaded parser, with initialize() in between (the documented re-init)
      const rs = h.map(input => runOne(state, input, fuel, true));
      emit({ pkg: j.pkg, kind: 'history', history: h, results: rs });
    }
  }
  fs.closeSync(out);
}
main();
