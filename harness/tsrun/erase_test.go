package tsrun

import (
	"os"
	"testing"
)

func TestEraseSample(t *testing.T) {
	src := `var StateSymStack :StateSym[] = [];
class ValType {
    n :number;
    s :string;
};
class StateSym  {
	Yystate :number; // state
	 YySymIndex :number; 
	ValType :ValType;
    constructor(Yystate :number, YySymIndex :number) {
        this.Yystate = Yystate;
    }
    Action(a :number) :number {
        return StateActionArray[this.Yystate][a]
    }
};
var StateActionArray :number[][] =[
 [1,2],
]
function Parser(input :string) :ValType {
	var currentPos :number = 0
	var val :ValType
	const model = {ValType :val, pos :currentPos}
	switch (c) { case 1: { x = a ? b : c; break; } }
}
function fetchLookAhead(input :string, 
	model:{ValType :ValType, pos :number})  {
}
function hs(r :number, ...xs :string[]) :string { return RT.hs(r, xs); }
`
	e := Erase(src)
	t.Log(e.JS)
	for _, d := range e.Deleted {
		t.Log(d)
	}
	os.WriteFile("/tmp/erase_sample.js", []byte(e.JS), 0o644)
}
