// Package tsrun makes generated TypeScript runnable on a Node without a
// TypeScript compiler: a conservative type eraser plus a Node runner.
//
// The eraser deletes `: Type` spans in exactly four syntactic positions
// (variable declarators, function/method parameters, function return types,
// class fields) and nothing else. Anything it cannot classify is left in
// place, so an unexpected construct fails `node --check` loudly instead of
// being repaired silently. Every deleted span is logged.
package tsrun

import (
	"fmt"
	"strings"
)

type tok struct {
	kind  byte // 'i' identifier/keyword, 'n' number, 's' string/template, 'p' punctuation, 'c' comment, 'w' whitespace
	text  string
	start int
	nl    bool // whitespace containing a newline
}

func isIdentStart(c byte) bool {
	return c == '_' || c == '$' || (c >= 'a' && c <= 'z') || (c >= 'A' && c <= 'Z') || c >= 0x80
}
func isIdentPart(c byte) bool { return isIdentStart(c) || (c >= '0' && c <= '9') }

func tokenize(src string) []tok {
	var out []tok
	i := 0
	for i < len(src) {
		c := src[i]
		st := i
		switch {
		case c == ' ' || c == '\t' || c == '\n' || c == '\r':
			nl := false
			for i < len(src) && (src[i] == ' ' || src[i] == '\t' || src[i] == '\n' || src[i] == '\r') {
				if src[i] == '\n' {
					nl = true
				}
				i++
			}
			out = append(out, tok{'w', src[st:i], st, nl})
		case c == '/' && i+1 < len(src) && src[i+1] == '/':
			for i < len(src) && src[i] != '\n' {
				i++
			}
			out = append(out, tok{'c', src[st:i], st, false})
		case c == '/' && i+1 < len(src) && src[i+1] == '*':
			j := strings.Index(src[i+2:], "*/")
			if j < 0 {
				i = len(src)
			} else {
				i = i + 2 + j + 2
			}
			out = append(out, tok{'c', src[st:i], st, strings.Contains(src[st:i], "\n")})
		case c == '"' || c == '\'' || c == '`':
			i++
			for i < len(src) && src[i] != c {
				if src[i] == '\\' {
					i++
				}
				i++
			}
			i++
			if i > len(src) {
				i = len(src)
			}
			out = append(out, tok{'s', src[st:i], st, false})
		case isIdentStart(c):
			for i < len(src) && isIdentPart(src[i]) {
				i++
			}
			out = append(out, tok{'i', src[st:i], st, false})
		case c >= '0' && c <= '9':
			for i < len(src) && (isIdentPart(src[i]) || src[i] == '.') {
				i++
			}
			out = append(out, tok{'n', src[st:i], st, false})
		default:
			if strings.HasPrefix(src[i:], "...") {
				i += 3
			} else if strings.HasPrefix(src[i:], "=>") {
				i += 2
			} else {
				i++
			}
			out = append(out, tok{'p', src[st:i], st, false})
		}
	}
	return out
}

type Erased struct {
	JS      string
	Deleted []string // every deleted span, for the log
}

// Erase removes type annotations from generated TypeScript.
func Erase(src string) *Erased {
	ts := tokenize(src)
	del := make([]bool, len(ts))
	res := &Erased{}
	// significant token navigation
	next := func(i int) int {
		for i++; i < len(ts); i++ {
			if ts[i].kind != 'w' && ts[i].kind != 'c' {
				return i
			}
		}
		return len(ts)
	}
	is := func(i int, s string) bool { return i < len(ts) && ts[i].text == s && ts[i].kind != 's' }
	// skipType returns the index of the first token after a type starting at
	// i, or -1 if the tokens do not look like a type. stop* say which
	// delimiters end the type at depth 0.
	skipType := func(i int, stopAtBrace bool) int {
		depth := 0
		j := i
		last := -1
		expectMore := true // true at the start and after | &
		for j < len(ts) {
			t := ts[j]
			if t.kind == 'w' || t.kind == 'c' {
				if t.nl && depth == 0 && !expectMore {
					// a newline ends the type unless the next token continues it
					k := next(j)
					if !(is(k, "|") || is(k, "&") || is(k, "[")) {
						return j
					}
				}
				j++
				continue
			}
			if depth == 0 {
				switch {
				case t.text == "=" || t.text == ";" || t.text == "," || t.text == ")" || t.text == "=>":
					if expectMore {
						return -1
					}
					return j
				case t.text == "{" && stopAtBrace && !expectMore:
					return j
				case t.text == "}":
					if expectMore {
						return -1
					}
					return j
				}
			}
			switch {
			case t.kind == 'i' || t.kind == 's' || t.kind == 'n':
				if !expectMore && depth == 0 {
					// two type atoms in a row: not a type we understand
					if last >= 0 && (ts[last].kind == 'i' || ts[last].text == "]" || ts[last].text == ">" || ts[last].text == "}") {
						return j
					}
				}
				expectMore = false
			case t.text == "[" || t.text == "<" || t.text == "{" || t.text == "(":
				depth++
				expectMore = false
			case t.text == "]" || t.text == ">" || t.text == "}" || t.text == ")":
				depth--
				if depth < 0 {
					return -1
				}
				expectMore = false
			case t.text == "|" || t.text == "&":
				if depth == 0 {
					expectMore = true
				}
			case t.text == "." || t.text == ":" || t.text == "?" || t.text == ",":
				if depth == 0 && t.text != "." {
					return -1
				}
			default:
				if depth == 0 {
					return -1
				}
			}
			last = j
			j++
		}
		if expectMore {
			return -1
		}
		return j
	}
	erase := func(from, to int, ctx string) {
		// trim trailing whitespace tokens out of the deleted span
		for to > from && (ts[to-1].kind == 'w' || ts[to-1].kind == 'c') {
			to--
		}
		var b strings.Builder
		for k := from; k < to; k++ {
			del[k] = true
			b.WriteString(ts[k].text)
		}
		res.Deleted = append(res.Deleted, fmt.Sprintf("%s@%d: %q", ctx, ts[from].start, b.String()))
	}
	// params handles a parameter list whose '(' is at index open; returns the
	// index of the matching ')'.
	params := func(open int) int {
		depth := 0
		j := open
		for j < len(ts) {
			t := ts[j]
			if t.kind == 'p' {
				switch t.text {
				case "(", "[", "{":
					depth++
				case ")", "]", "}":
					depth--
					if depth == 0 {
						return j
					}
				}
			}
			if depth == 1 && t.kind == 'i' {
				// parameter name: preceded by '(' ',' or '...'
				p := j - 1
				for p > open && (ts[p].kind == 'w' || ts[p].kind == 'c') {
					p--
				}
				if ts[p].text == "(" || ts[p].text == "," || ts[p].text == "..." {
					k := next(j)
					if is(k, "?") {
						k2 := next(k)
						if is(k2, ":") {
							del[k] = true
							k = k2
						}
					}
					if is(k, ":") {
						end := skipType(next(k), false)
						if end > 0 && (is(end, ",") || is(end, ")") || is(end, "=")) {
							erase(k, end, "param")
							j = end
							continue
						}
					}
				}
			}
			j++
		}
		return len(ts)
	}
	afterParams := func(closeIdx int) {
		k := next(closeIdx)
		if is(k, ":") {
			end := skipType(next(k), true)
			if end > 0 && is(end, "{") {
				erase(k, end, "return")
			}
		}
	}
	// class bodies
	type classCtx struct{ depth int }
	var classes []classCtx
	depth := 0
	pendingClass := false
	for i := 0; i < len(ts); i++ {
		t := ts[i]
		if t.kind == 'w' || t.kind == 'c' || t.kind == 's' || del[i] {
			continue
		}
		if t.kind == 'p' {
			switch t.text {
			case "{":
				depth++
				if pendingClass {
					classes = append(classes, classCtx{depth})
					pendingClass = false
				}
			case "}":
				if len(classes) > 0 && classes[len(classes)-1].depth == depth {
					classes = classes[:len(classes)-1]
				}
				depth--
			}
			continue
		}
		if t.kind != 'i' {
			continue
		}
		switch t.text {
		case "class":
			pendingClass = true
			continue
		case "var", "let", "const":
			k := next(i)
			if k < len(ts) && ts[k].kind == 'i' {
				c := next(k)
				if is(c, ":") {
					end := skipType(next(c), false)
					if end > 0 {
						erase(c, end, "declarator")
					}
				}
			}
			continue
		case "function":
			k := next(i)
			if k < len(ts) && ts[k].kind == 'i' {
				k = next(k)
			}
			if is(k, "(") {
				cl := params(k)
				if cl < len(ts) {
					afterParams(cl)
				}
			}
			continue
		}
		// class members
		if len(classes) > 0 && classes[len(classes)-1].depth == depth {
			k := next(i)
			switch {
			case is(k, "("):
				cl := params(k)
				if cl < len(ts) {
					afterParams(cl)
				}
			case is(k, ":"):
				end := skipType(next(k), false)
				if end > 0 && (is(end, ";") || is(end, "=") || is(end, "}") || (end < len(ts) && ts[end].kind == 'w')) {
					erase(k, end, "field")
				}
			}
		}
	}
	var b strings.Builder
	for i, t := range ts {
		if !del[i] {
			b.WriteString(t.text)
		}
	}
	res.JS = b.String()
	return res
}
