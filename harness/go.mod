module verifharness

go 1.22.0

toolchain go1.23.5

require (
	github.com/acekingke/yaccgo v0.0.0-00010101000000-000000000000
	github.com/awalterschulze/gographviz v2.0.3+incompatible
	golang.org/x/tools v0.29.0
)

require (
	golang.org/x/mod v0.22.0 // indirect
	golang.org/x/sync v0.10.0 // indirect
)

replace github.com/acekingke/yaccgo => /repo
