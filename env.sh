# sourced by run.sh and setup.sh
export GOFLAGS=-mod=mod GOPROXY=off GOSUMDB=off GOTOOLCHAIN=local
export GONOSUMDB='*' GONOSUMCHECK=1 GOFLAGS="-mod=mod"
