#!/usr/bin/env python3
# validates MANIFEST.json and every evidence file against the schemas
import json, sys, glob
sys.path.insert(0, '/opt/veriftools/pyvenv/lib/python3.11/site-packages')
import jsonschema
ms = json.load(open('/root/.vp/MANIFEST.schema.json'))
es = json.load(open('/root/.vp/EVIDENCE.schema.json'))
m = json.load(open('/verif/MANIFEST.json'))
jsonschema.validate(m, ms)
ok = True
props = [json.loads(l)['id'] for l in open('/verif/properties.jsonl')]
claimed = [c['property_id'] for c in m['checks']]
na = [c['property_id'] for c in m.get('not_applicable', [])]
for p in props:
    if (p in claimed) == (p in na):
        print('property', p, 'must be exactly one of claimed / not_applicable'); ok = False
for f in sorted(glob.glob('/verif/evidence/*.json')):
    try:
        jsonschema.validate(json.load(open(f)), es)
    except Exception as e:
        print('INVALID', f, str(e)[:300]); ok = False
print('manifest ok; evidence files:', len(glob.glob('/verif/evidence/*.json')), 'valid' if ok else 'PROBLEMS')
sys.exit(0 if ok else 1)
