#!/bin/bash
# usage: seedtest.sh <dir with patch.diff> <tier> <check id>...
# Runs the given checks against a scratch worktree of /repo that carries the
# seeded change (VERIF_REPO), so /repo itself is never modified; the worktree
# is removed afterwards. Prints one line per check.
set -u
here=$(cd "$(dirname "$0")" && pwd)
dir=$(cd "$1" && pwd); tier=$2; shift 2
cd "$here"
wt=$(mktemp -d /tmp/seedwt.XXXXXX); rmdir "$wt"
git -C /repo worktree add -q --detach "$wt" HEAD || exit 3
trap 'git -C /repo worktree remove --force "$wt"; rm -rf "$out_root"' EXIT
git -C "$wt" apply "$dir/patch.diff" || { echo "seedtest: patch does not apply"; exit 3; }
out_root=$(mktemp -d /tmp/seedout.XXXXXX)
cp known_findings.json properties.jsonl "$out_root/"
out=$(VERIF_REPO="$wt" VERIF_OUT="$out_root" ./run.sh multi $tier "$@" 2>&1)
for id in "$@"; do
  # the part of the output that belongs to this check: up to its "== id exit=" line
  part=$(echo "$out" | awk -v id="$id" '$1=="==" && $2==id {print; exit} {print}' | tac | awk -v id="$id" 'NR==1 {print; next} $1=="==" {exit} {print}' | tac)
  code=$(echo "$part" | sed -n "s/^== $id exit=//p")
  [ -z "$code" ] && code=$(echo "$out" | grep -q "does not load/build\|does not build" && echo 2 || echo 3)
  first=$(echo "$part" | grep -A1 -m1 "^VIOLATION" | tail -1 | cut -c1-300)
  echo "$id exit=$code :: $(echo "$part" | grep "$id $tier:" | sed 's/.*violations=/violations=/' | cut -c1-50) :: $first"
done
