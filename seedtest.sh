#!/bin/bash
# usage: seedtest.sh <dir with patch.diff> <tier> <check id>...
# Applies a seeded property-breaking change to /repo, runs the given checks,
# prints one line per check, and ALWAYS restores /repo's working tree.
set -u
dir=$1; tier=$2; shift 2
cd /verif
if ! git -C /repo diff --quiet; then echo "seedtest: /repo has uncommitted changes, refusing"; exit 3; fi
git -C /repo apply "$dir/patch.diff" || { echo "seedtest: patch does not apply"; exit 3; }
trap 'git -C /repo checkout -- . ; git -C /repo clean -fdq' EXIT
for id in "$@"; do
  out=$(./run.sh $id $tier 2>&1); code=$?
  first=$(echo "$out" | grep -A1 -m1 "^VIOLATION" | tail -1 | cut -c1-260)
  echo "$id exit=$code :: $(echo "$out" | grep "$id $tier:" | sed 's/.*violations=/violations=/' | cut -c1-60) :: $first"
done
