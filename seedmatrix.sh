#!/bin/bash
# usage: seedmatrix.sh [-full|-own] [seed ids...]
# Prints, per seeded change, which quick checks report a violation. Default: the check of the
# property the change breaks plus the checks whose quick tier takes seconds (C03 C04 C09 C10 C12
# C16 C18) and one generated-parser check (C08); -full runs all 19 (about 5 minutes per change).
cd "$(dirname "$0")"
full=0; [ "${1:-}" = "-full" ] && { full=1; shift; }
[ "${1:-}" = "-own" ] && { full=2; shift; }   # only the quick check of the property the change breaks
ids=${@:-$(ls seeded | grep '^C')}
all=$(python3 -c "import json; print(' '.join(c['property_id'] for c in json.load(open('MANIFEST.json'))['checks']))")
cheap="C03 C04 C08 C09 C10 C12 C16 C18"
for s in $ids; do
  own=${s:0:3}
  if [ $full = 1 ]; then set="$all"; elif [ $full = 2 ]; then set="$own"; else set=$(echo "$own $cheap" | tr ' ' '\n' | sort -u | tr '\n' ' '); fi
  echo "== $s"
  ./seedtest.sh seeded/$s quick $set 2>&1 | awk '{print $1, $2}' | tr '\n' ' '; echo
done
