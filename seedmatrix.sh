#!/bin/bash
# usage: seedmatrix.sh [seed ids...]  -> prints, per seeded change, which quick checks report a violation
cd "$(dirname "$0")"
ids=${@:-$(ls seeded | grep '^C')}
all=$(python3 -c "import json; print(' '.join(c['property_id'] for c in json.load(open('MANIFEST.json'))['checks']))")
for s in $ids; do
  echo "== $s"
  ./seedtest.sh seeded/$s quick $all 2>&1 | awk '{print $1, $2}' | tr '\n' ' '; echo
done
