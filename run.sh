#!/bin/bash
# usage: run.sh <Cxx> <quick|thorough>   |   run.sh replay <file>   |   run.sh multi <tier> <Cxx>...
# Rebuilds the overlay (map-order + fuel instrumentation) and the harness from
# the CURRENT working tree of /repo into a scratch directory, runs the check,
# removes the scratch directory. Exit 0 = held on everything explored,
# 1 = VIOLATION printed, 2 = the working tree does not build, 3 = harness error.
set -u
cd "$(dirname "$0")"
SRC_ROOT="$PWD"
# evidence/ and replays/ go to $VERIF_OUT when set (seed tests), else next to this script
export VERIF_ROOT="${VERIF_OUT:-$PWD}"
. ./env.sh
SCR=$(mktemp -d "${TMPDIR:-/tmp}/verif-run.XXXXXX") || exit 3
trap 'rm -rf "$SCR"' EXIT
export VERIF_SCRATCH="$SCR"
# small Go build cache holding the standard library for the builds of generated parsers (made by setup.sh)
export VERIF_SEEDCACHE="${VERIF_SEEDCACHE:-/verif/.cache/gendrv-seed}"
REPO="${VERIF_REPO:-/repo}"
export VERIF_REPO="$REPO"
# the harness module replaces yaccgo by $REPO: a scratch go.mod keeps harness/go.mod untouched
sed "s#=> /repo#=> $REPO#" harness/go.mod > "$SCR/go.mod"; cp harness/go.sum "$SCR/go.sum"
( cd harness && go build -modfile="$SCR/go.mod" -o "$SCR/vrewrite" ./cmd/vrewrite ) || { echo "harness build failed (vrewrite)"; exit 3; }
"$SCR/vrewrite" -repo "$REPO" -out "$SCR/ov" -sched "$SRC_ROOT/harness/ord/verifsched" >"$SCR/vrewrite.log" 2>&1 || { cat "$SCR/vrewrite.log"; echo "the working tree of $REPO does not load/build"; exit 2; }
export VERIF_OVERLAY="$SCR/ov/overlay.json"
( cd harness && go build -modfile="$SCR/go.mod" -tags verif -overlay "$VERIF_OVERLAY" -o "$SCR/vcheck" ./cmd/vcheck ) >"$SCR/build.log" 2>&1 || {
  cat "$SCR/build.log"
  if grep -q "^$REPO\|acekingke/yaccgo" "$SCR/build.log" && ! grep -q 'verifharness' "$SCR/build.log"; then echo "the working tree of /repo does not build"; exit 2; fi
  echo "harness build failed"; exit 3; }
if [ "$1" = replay ]; then
  "$SCR/vcheck" replay "$2"; exit $?
fi
if [ "$1" = multi ]; then
  # run.sh multi <tier> <id>...: one build, several checks (used by the seeded-change matrix);
  # prints "== <id> exit=<code>" after the output of each check, exits with the largest code
  tier=$2; shift 2; worst=0
  for id in "$@"; do
    "$SCR/vcheck" run "$id" "$tier"; code=$?
    echo "== $id exit=$code"
    [ $code -gt $worst ] && worst=$code
  done
  exit $worst
fi
"$SCR/vcheck" run "$1" "$2"
