#!/bin/bash
# runs every registered check (quick or thorough) and prints one line each
tier=${1:-quick}
cd "$(dirname "$0")"
for id in $(python3 -c "import json; print(' '.join(c['property_id'] for c in json.load(open('MANIFEST.json'))['checks']))"); do
  out=$(./run.sh $id $tier 2>&1); code=$?
  echo "$id exit=$code $(echo "$out" | grep "$id $tier:" | cut -c1-160)"
  if [ $code -ne 0 ]; then echo "$out" | grep -E "VIOLATION|INTERNAL|KNOWN" | head -5; fi
done
